#!/usr/bin/env python3
"""Per-property check: contracts on the real /repo functions, discharged by z3 (cvc5 on unknown).

usage: check.py <property-id> [--tier quick|thorough]
exit 0 = every obligation of the property discharged on /repo's working tree (known findings printed as KNOWN-FINDING)
exit 1 = an obligation has a counterexample: `VIOLATION property=<id> replay=<path>` (one line per failed clause)
exit 2 = undecided (solver unknown / construct outside the translator's reach / path budget); never a VIOLATION line
exit 3 = checker error (vacuity guard failed, engine crash)
"""
from __future__ import annotations

import hashlib
import json
import os
import re
import subprocess
import sys
import time

HERE = os.path.dirname(os.path.abspath(__file__))
VENV_PY = os.path.join(HERE, '.venv312', 'bin', 'python')


def ensure_interpreter():
    if os.path.realpath(sys.executable) == os.path.realpath(VENV_PY) or os.environ.get('PYVC_NO_REEXEC') == '1':
        try:
            import z3  # noqa: F401
            return
        except ImportError:
            pass
    if not os.path.exists(VENV_PY):
        subprocess.run(['sh', os.path.join(HERE, 'tools', 'setup.sh')], check=True, cwd=HERE, stdout=subprocess.DEVNULL)
    if os.path.realpath(sys.executable) != os.path.realpath(VENV_PY):
        os.execv(VENV_PY, [VENV_PY, os.path.abspath(__file__)] + sys.argv[1:])


ensure_interpreter()
sys.path.insert(0, HERE)

import z3  # noqa: E402

import contracts  # noqa: E402
from contracts import props  # noqa: E402
from pyvc import extract, smt, verify  # noqa: E402
from replay import registry as replay_registry  # noqa: E402

OUT = os.path.join(HERE, 'out')
KF_FILE = os.path.join(HERE, 'known_findings.json')


def slug(s: str) -> str:
    return re.sub(r'[^A-Za-z0-9_.-]+', '_', s)[:120]


def clause_of(name: str) -> str:
    return name


def belongs(ob, pid: str, P: dict) -> bool:
    ptags = [t for t in ob.tags if re.fullmatch(r'C\d\d', t)]
    if not ptags:
        return True          # structural obligations (safety, frame, undeclared raise, untagged invariants) count for every property using the function
    return pid in ptags


def load_known_findings():
    if not os.path.exists(KF_FILE):
        return []
    return json.load(open(KF_FILE)).get('findings', [])


def kf_match(kf: dict, pid: str, ob) -> bool:
    if kf.get('status') != 'open' or pid not in kf.get('properties', [kf.get('property')]):
        return False
    if not re.fullmatch(kf['obligation'], ob.name):
        return False
    w = kf.get('witness')
    if w:
        text = ' '.join(ob.meta.get('trace', [])) + ' ' + str(ob.meta.get('origin', ''))
        if not re.search(w, text):
            return False
    return True


def main():
    args = [a for a in sys.argv[1:] if not a.startswith('--')]
    if not args:
        print(__doc__)
        return 3
    pid = args[0]
    tier = os.environ.get('VERIF_TIER') or 'quick'
    if '--tier' in sys.argv:
        tier = sys.argv[sys.argv.index('--tier') + 1]
    seed = int(os.environ.get('VERIF_SEED', '0') or 0)
    t0 = time.time()
    os.makedirs(os.path.join(OUT, 'replays'), exist_ok=True)
    os.environ.setdefault('PYVC_TMP', OUT)
    spec = contracts.build()
    P = props.PROPERTIES.get(pid)
    if P is None:
        print('property %s is not claimed (see MANIFEST.json not_applicable)' % pid)
        return 3
    timeout_ms = 20000 if tier == 'quick' else 60000
    axioms = smt.class_axioms()
    smt._NO_RETRY[:] = [k['obligation'] for k in load_known_findings() if k.get('status') == 'open']
    results = verify.verify_many(spec, P['functions'], axioms + smt.literal_axioms(), timeout_ms, pid=pid)
    refused = [(r.key, r.refused) for r in results if r.refused]
    obls, canaries = [], []
    per_fn = []
    for r in results:
        mine = [o for o in r.obligations if belongs(o, pid, P)]
        obls += mine
        canaries += r.canaries
        C = spec.functions[r.key]
        per_fn.append({'function': r.key, 'file': r.info.get('file'), 'lines': [r.info.get('lineno'), r.info.get('end_lineno')],
                       'sha256': r.info.get('sha256'), 'paths': r.paths, 'paths_completed': r.completed, 'exits': r.exits,
                       'obligation_instances': len(mine), 'trusted': bool(C.trusted), 'dropped_calls': r.dropped, 'notes': r.notes + ([C.notes] if C.notes else []),
                       'symexec_and_solver_cpu_s': round(r.time, 2), 'refused': r.refused})

    # ------------------------------------------------------------------ classify per clause
    clauses: dict[str, dict] = {}
    for o in obls:
        c = clauses.setdefault(o.name, {'instances': 0, 'unsat': 0, 'sat': [], 'unknown': [], 'time': 0.0, 'solvers': set()})
        c['instances'] += 1
        c['time'] += o.time
        c['solvers'].add(str(o.solver))
        if o.verdict == 'unsat':
            c['unsat'] += 1
        elif o.verdict == 'sat':
            c['sat'].append(o)
        else:
            c['unknown'].append(o)
    vacuity_errors = []
    for r in results:
        C = spec.functions[r.key]
        if C.trusted or r.refused:
            continue
        if r.completed == 0:
            vacuity_errors.append('%s: no path reaches an exit (contradictory precondition?)' % r.key)
        if r.canaries and all(cn.verdict == 'unsat' for cn in r.canaries) and not any(o.verdict == 'sat' for o in r.obligations):
            vacuity_errors.append('%s: `false` is provable at every sampled exit: assumptions are inconsistent' % r.key)
    if not obls:
        vacuity_errors.append('zero obligations generated')

    # thorough tier: must-fail probe with the FULL path condition (the canaries above probe its quantifier-free part only): the
    # post-condition `False` is appended to every verified function; it must not be provable at every normal exit - if it is, the
    # assumptions (axioms, contracts of callees, invariants, rely clauses) are inconsistent and every proof of that function is void
    vacuity_probe = []
    if tier == 'thorough' and os.environ.get('PYVC_NO_PROBE') != '1':
        from pyvc.spec import Clause
        pspec = contracts.build()
        keys = []
        for r in results:
            C = pspec.functions[r.key]
            if C.trusted or r.refused or C.file is None or r.exits.get('normal', 0) == 0:
                continue
            C.probe_ensures = [Clause.of(('VACUITY_PROBE', 'False', ['VACUITY']))]       # body-only: callers do not see it
            keys.append(r.key)
        if keys:
            for pr in verify.verify_many(pspec, keys, axioms + smt.literal_axioms(), 8000, pid='VACUITY'):
                vs = [o.verdict for o in pr.obligations if o.name.endswith('/ensures:VACUITY_PROBE')]
                vacuity_probe.append({'function': pr.key, 'normal_exits_probed': len(vs), 'false_proved_at': sum(1 for v in vs if v == 'unsat')})
                if vs and all(v == 'unsat' for v in vs):
                    vacuity_errors.append('%s: `false` is provable from the full path condition at every normal exit: assumptions are inconsistent' % pr.key)

    kfs = load_known_findings()
    violations, known, undecided = [], [], []
    for name, c in sorted(clauses.items()):
        for o in c['sat']:
            m = [k for k in kfs if kf_match(k, pid, o)]
            if m:
                known.append((m[0], o))
            else:
                violations.append(o)
        for o in c['unknown']:
            m = [k for k in kfs if kf_match(k, pid, o)]
            if m:
                known.append((m[0], o))     # a listed known finding whose obligation the solver leaves open: still the same finding, no new alarm
            else:
                undecided.append(o)

    # A clause that was discharged on the unchanged tree (committed baseline) and that the solver now leaves open is reported as a
    # violation without failing input (the solver's reason is attached); clauses never discharged before stay `undecided`.
    base_file = os.path.join(HERE, 'baseline', pid + '.json')
    baseline = set(json.load(open(base_file))) if os.path.exists(base_file) else set()
    regressed = [o for o in undecided if o.name in baseline]
    undecided = [o for o in undecided if o.name not in baseline]
    for o in regressed:
        o.model = 'no model: the solver answers %r (reason: %s) for an obligation that is discharged on the unchanged tree' % (o.verdict, o.reason)
    violations += regressed
    if '--write-baseline' in sys.argv:
        os.makedirs(os.path.join(HERE, 'baseline'), exist_ok=True)
        json.dump(sorted(n for n, c in clauses.items() if c['unsat'] == c['instances']), open(base_file, 'w'), indent=0)

    # one report per failed clause (first failing instance)
    seen = set()
    vio_lines = []
    for o in violations:
        if o.name in seen:
            continue
        seen.add(o.name)
        info = next((f for f in per_fn if o.name.startswith(f['function'] + '/')), {})
        rp = os.path.join(OUT, 'replays', '%s-%s.json' % (pid, slug(o.name)))
        rep = replay_registry.replay(pid, o, spec)
        doc = {'property': pid, 'obligation': o.name, 'function': info, 'line': o.meta.get('line'), 'verdict': o.verdict, 'solver': o.solver, 'solver_reason': o.reason,
               'path_signature': o.meta.get('trace'), 'origin': o.meta.get('origin'), 'model': o.model,
               'replay': rep, 'confirmed': bool(rep.get('confirmed')),
               'instances_failing': len([x for x in violations if x.name == o.name])}
        json.dump(doc, open(rp, 'w'), indent=1, default=str)
        suffix = '' if rep.get('confirmed') else ' no-failing-input-found'
        vio_lines.append('VIOLATION property=%s replay=%s%s' % (pid, rp, suffix))
    seen_kf = set()
    for kf, o in known:
        if kf['id'] in seen_kf:
            continue
        seen_kf.add(kf['id'])
        print('KNOWN-FINDING: property=%s %s [%s: obligation %s]' % (pid, kf['what_fails'], kf['id'], o.name))

    # thorough tier: the scenario corpus of this property is replayed on the real code (reported separately; never counted as an
    # obligation). A repaired finding that reproduces again is a violation with a failing input; an open one that stops reproducing is noted.
    corpus_report = []
    if tier == 'thorough':
        corpus = json.load(open(os.path.join(HERE, 'replay', 'corpus.json')))['scenarios']
        props_of = {k['id']: k.get('properties', []) for k in kfs}
        for sc in corpus:
            if pid not in (sc.get('properties') or props_of.get(sc['finding'], [])):
                continue
            r = replay_registry.run_native(sc['script'], [])
            corpus_report.append({'script': sc['script'], 'finding': sc['finding'], 'expected_exit': sc['expect'], 'exit': r['exit']})
            if sc['expect'] == 0 and r['exit'] == 1:
                rp = os.path.join(OUT, 'replays', '%s-scenario-%s.json' % (pid, slug(sc['script'])))
                json.dump({'property': pid, 'obligation': 'scenario:' + sc['script'], 'finding_that_was_repaired': sc['finding'], 'confirmed': True, 'replay': r}, open(rp, 'w'), indent=1)
                vio_lines.append('VIOLATION property=%s replay=%s' % (pid, rp))

    n_clauses = len(clauses)
    n_discharged = sum(1 for c in clauses.values() if c['unsat'] == c['instances'])
    wall = time.time() - t0
    level = P.get('level', 'proof')
    if known and level == 'proof':
        level = 'other'
    trusted = sorted(set(P.get('trusted_base', [])) | {'trusted contract: ' + f['function'] for f in per_fn if f['trusted']})
    samples = [{'obligation': n, 'instances': c['instances'], 'verdict': 'discharged' if c['unsat'] == c['instances'] else ('counterexample' if c['sat'] else 'unknown'),
                'solver_s': round(c['time'], 3)} for n, c in sorted(clauses.items())][:400]
    cov = {
        'obligations': n_clauses,
        'discharged': n_discharged,
        'obligation_instances': len(obls),
        'instances_discharged': sum(c['unsat'] for c in clauses.values()),
        'checker_cmd': '.venv312/bin/python check.py %s --tier %s' % (pid, tier),
        'backend': 'z3 %s via z3-solver (python API), cvc5 1.0.3 CLI on z3 unknowns' % z3.get_version_string(),
        'solver_time_s': round(sum(o.time for o in obls), 2),
        'solver_timeout_ms': timeout_ms,
        'trusted_base': trusted,
        'functions_under_contract': per_fn,
        'samples': samples,
        'known_findings_hit': [{'id': k['id'], 'obligation': o.name} for k, o in known],
        'undecided': [o.name for o in undecided][:50],
        'refused': refused,
        'vacuity_probe_full_path_condition': vacuity_probe,
        'vacuity': {'canaries_sat': sum(1 for c in canaries if c.verdict in ('sat', 'sat*')), 'canaries': len(canaries), 'errors': vacuity_errors},
        'not_decided_clauses': P.get('not_decided', []),
        'bounded': P.get('bounded', []),
        'scenario_corpus_replayed': corpus_report,
        'explanation': ('contract-based deductive verification of the real functions: %d of %d contract clauses discharged for all inputs/paths; '
                        '%d clause(s) fail with counterexamples that are listed known findings; see samples' % (n_discharged, n_clauses, len(seen_kf))),
    }
    ev = {'property_id': pid, 'tier': tier, 'seed': seed, 'level': level, 'coverage': cov,
          'assumptions': P.get('assumptions', []) + ['partial correctness: termination of loops/recursion is not proved (P4)'],
          'wall_s': round(wall, 2), 'violations': len(vio_lines)}
    ev_dir = os.path.join(HERE, 'evidence')
    if os.path.realpath(extract.REPO) != os.path.realpath('/repo'):
        ev_dir = os.path.join(OUT, 'evidence-scratch')    # development runs against a scratch copy never overwrite the real evidence
        ev['coverage']['repo_under_verification'] = extract.REPO
    os.makedirs(ev_dir, exist_ok=True)
    json.dump(ev, open(os.path.join(ev_dir, pid + '.json'), 'w'), indent=1, default=str)

    print('%s: %d/%d clauses discharged (%d instances, %d functions, %.1fs; solver %.1fs)' % (
        pid, n_discharged, n_clauses, len(obls), len(per_fn), wall, cov['solver_time_s']))
    for line in vio_lines:
        print(line)
    if vio_lines:
        return 1
    if vacuity_errors:
        for e in vacuity_errors:
            print('CHECKER-ERROR vacuity: ' + e)
        return 3
    if refused:
        for k, why in refused:
            print('UNDECIDED function=%s reason=%s' % (k, why.splitlines()[0][:300]))
        return 2
    if undecided:
        for o in undecided[:10]:
            print('UNDECIDED obligation=%s reason=%s' % (o.name, o.reason))
        return 2
    return 0


if __name__ == '__main__':
    try:
        sys.exit(main())
    except SystemExit:
        raise
    except Exception:
        import traceback
        traceback.print_exc()
        sys.exit(3)
