"""C06 replay family: across all buses of one event loop at most one event is being processed at a time. Handlers record their
enter/exit; while a handler is suspended in a plain sleep (NOT awaiting an event) no handler of another event may start - whichever
bus it is on, and wherever that bus was first used (from main code, from inside a handler of another bus, before or after the others).
Exit 1 = a handler of another event started while one was still running and not awaiting an event."""
import asyncio, sys, logging, itertools
from bubus import EventBus, BaseEvent
logging.disable(logging.CRITICAL)

class MA(BaseEvent): pass
class MB(BaseEvent): pass
class MC(BaseEvent): pass

async def scenario(first_use_inside_handler, n_each):
    tag = '%d_%d' % (int(first_use_inside_handler), n_each)
    a, b = EventBus(name='RpMxA' + tag), EventBus(name='RpMxB' + tag)
    c = EventBus(name='RpMxC' + tag)          # never dispatched to from main code when first_use_inside_handler
    running, bad = {}, []
    def handler(name, fan=None):
        async def h(e):
            others = [k for k in running if k != e.event_id]
            if others:
                bad.append('%s(%s) started while %s still running' % (name, e.event_type, [running[k] for k in others]))
            running[e.event_id] = name
            if fan is not None:
                fan()
            await asyncio.sleep(0.01)          # suspended, but not awaiting an event
            running.pop(e.event_id, None)
        h.__name__ = 'h_' + name
        return h
    a.on(MA, handler('a', fan=(lambda: c.dispatch(MC())) if first_use_inside_handler else None))
    b.on(MB, handler('b'))
    c.on(MC, handler('c'))
    if not first_use_inside_handler:
        c.dispatch(MC())
    for _ in range(n_each):
        a.dispatch(MA()); b.dispatch(MB())
    for _ in range(3):
        for bus in (a, b, c):
            await bus.wait_until_idle()
    for bus in (a, b, c):
        await bus.stop(timeout=0)
    return bad

async def main():
    bad = []
    for fu, n in itertools.product([False, True], [1, 3]):
        bad += await scenario(fu, n)
    print('violations', len(bad), bad[:3])
    return 1 if bad else 0

sys.exit(asyncio.run(asyncio.wait_for(main(), 60)))
