"""C11 replay (finding G4): a handler that raises asyncio.CancelledError itself must be isolated like any other handler error."""
import asyncio, sys
from bubus import EventBus, BaseEvent

class E(BaseEvent): pass

async def main():
    bus = EventBus(name='RpG4Bus')
    ran = []
    async def bad(e):
        raise asyncio.CancelledError('raised by the handler itself')
    async def good(e):
        ran.append('good')
    bus.on('E', bad); bus.on('E', good)
    ev = bus.dispatch(E())
    try:
        await asyncio.wait_for(ev.event_completed_signal.wait(), 2)
        completed = True
    except asyncio.TimeoutError:
        completed = False
    later = bus.dispatch(E())
    try:
        await asyncio.wait_for(later.event_completed_signal.wait(), 2)
        later_ok = True
    except asyncio.TimeoutError:
        later_ok = False
    print('sibling ran', ran, 'event completed', completed, 'later event processed', later_ok, 'run loop alive', bool(bus._runloop_task and not bus._runloop_task.done()))
    await bus.stop(timeout=0)
    return 1 if (not ran or not completed or not later_ok) else 0

sys.exit(asyncio.run(asyncio.wait_for(main(), 30)))
