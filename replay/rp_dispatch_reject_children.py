"""C14 replay: a dispatch rejected inside a handler must leave no trace (not recorded as child, not in history)."""
import asyncio, sys
from bubus import EventBus, BaseEvent

class P(BaseEvent): pass
class K(BaseEvent): pass

async def main():
    bus = EventBus(name='RpRejectBus')
    seen = {'accepted': 0, 'rejected': 0, 'rejected_ids': []}
    async def h(e):
        for _ in range(120):
            k = K()
            try:
                bus.dispatch(k)
                seen['accepted'] += 1
            except Exception:
                seen['rejected'] += 1
                seen['rejected_ids'].append(k.event_id)
    bus.on('P', h)
    p = bus.dispatch(P())
    try:
        await asyncio.wait_for(p.event_completed_signal.wait(), 5)
        completed = True
    except asyncio.TimeoutError:
        completed = False
    kids = [c.event_id for c in p.event_children]
    traced = [i for i in seen['rejected_ids'] if i in kids or i in bus.event_history]
    print('accepted', seen['accepted'], 'rejected', seen['rejected'], 'rejected-but-traced', len(traced), 'parent_completed', completed)
    await bus.stop(timeout=0)
    return 1 if (seen['rejected'] and traced) else 0

sys.exit(asyncio.run(asyncio.wait_for(main(), 30)))
