"""C12 replay (finding G1): the accessors must honour a caller-supplied include filter; README: "Get all results including errors and None values"."""
import asyncio, sys
from bubus import EventBus, BaseEvent

class E(BaseEvent): pass

async def main():
    bus = EventBus(name='RpG1Bus')
    bus.on('E', lambda e: None)
    def seven(e): return 7
    bus.on('E', seven)
    e = await bus.dispatch(E())
    try:
        vals = await e.event_results_list(include=lambda r: True, raise_if_any=False, raise_if_none=False)
        print('values', vals)
        bad = vals != [None, 7]
    except AssertionError as ex:
        print('AssertionError from the accessor:', str(ex)[:80])
        bad = True
    await bus.stop(timeout=0)
    return 1 if bad else 0

sys.exit(asyncio.run(asyncio.wait_for(main(), 30)))
