"""Replay templates: scenario programs over the public API of the REAL package, per property (mechanism 2/3 of DESIGN.md section 7).

When an obligation fails, every scenario registered for the property is run against the tree under verification; a scenario
exits 1 iff it observes the property's violation. The first one that does is the failing input (its transcript goes into
the replay file). None => the VIOLATION line ends with no-failing-input-found."""
from .registry import replayer, run_native

SCENARIOS = {
    'C09': ['rp_dispatch_own_parent.py', 'rp_dispatch_child_twice.py', 'rp_lock_inherited.py'],
    'C14': ['rp_dispatch_reject_children.py'],
    'C06': ['rp_lock_inherited.py'],
    'C16': ['rp_exit_with_running_bus.py'],
    'C15': ['rp_idle_after_fault.py', 'rp_recursion_guard_hang.py'],
    'C10': ['rp_idle_after_fault.py'],
    'C03': ['rp_recursion_guard_hang.py'],
    'C01': ['rp_recursion_guard_hang.py'],
    'C11': ['rp_recursion_guard_hang.py'],
}


@replayer(r'.')
def scenario_sweep(pid, ob, spec):
    runs = []
    for script in SCENARIOS.get(pid, []):
        r = run_native(script, [])
        runs.append(r)
        if r.get('confirmed'):
            return {'confirmed': True, 'mechanism': 'scenario:' + script, 'transcript': r}
    return {'confirmed': False, 'mechanism': 'scenario sweep', 'scenarios_run': [(r['script'], r['exit']) for r in runs],
            'note': 'no registered scenario of this property reproduces the failed obligation on this tree; the verifier model and path signature are attached'}
