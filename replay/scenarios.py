"""Replay templates: scenario programs over the public API of the REAL package (mechanism 2/3 of DESIGN.md section 7).

When an obligation fails, the scenarios registered for (a regular expression over) that obligation are run against the tree
under verification; a scenario exits 1 iff it observes the violation. The first one that does is the failing input (its
transcript goes into the replay file). None => the VIOLATION line ends with no-failing-input-found."""
import re

from .registry import replayer, run_native

# (obligation regex, script)
SCENARIOS = [
    (r'EventBus\.dispatch/ensures:(never_own_parent|parent_|no_parent|explicit_parent)', 'rp_dispatch_own_parent.py'),
    (r'EventBus\.dispatch/ensures:(child_once|only_that_handlers_children|children_only)', 'rp_dispatch_child_twice.py'),
    (r'EventBus\.dispatch/ensures:(child_once|only_that_handlers_children|children_only|path_|same_object)', 'rp_dispatch_family.py'),
    (r'EventBus\.dispatch/(raises:.*:(children_unchanged|history_unchanged|queue_unchanged)|ensures:enqueued)', 'rp_dispatch_reject_children.py'),
    (r'EventBus\._run_loop/callsite:step/requires:root_context|ReentrantLock\.|EventBus\.step/exit:lock_released', 'rp_lock_inherited.py'),
    (r'EventBus\._run_loop/callsite:step/requires:root_context|ReentrantLock\.|EventBus\.step/(exit:lock_released|callsite:process_event/requires:lock_held)|/requires:lock_held', 'rp_mutual_exclusion_family.py'),
    (r'CleanShutdownQueue\.(put_nowait|get_nowait)/|EventBus\.(dispatch/ensures:enqueued|_get_next_event/ensures|step/(ensures|exit):.*(takes|head|dequeued))', 'rp_fifo_family.py'),
    (r'EventBus\._get_next_event/raises:cancel_not_swallowed|EventBus\._run_loop/callsite:step/requires:not_after_cancel', 'rp_exit_with_running_bus.py'),
    (r'EventBus\.step/.*task_done|EventBus\.step/inv.*queue_accounting', 'rp_idle_after_fault.py'),
    (r'EventBus\.process_event/raises:only_declared', 'rp_recursion_guard_hang.py'),
    (r'EventBus\.process_event/raises:cancelled:completion_attempted', 'rp_inline_victim_never_completes.py'),
    (r'EventBus\.(_would_create_loop/(ensures|raises:recursion_guard)|execute_handler/raises:already_started|_get_applicable_handlers/ensures)', 'rp_redispatch_runs_once.py'),
    (r'EventBus\._execute_handlers/raises:cancellederror_only_if_task_cancelled', 'rp_handler_raises_cancelled.py'),
    (r'EventBus\._execute_handlers/(ensures:no_handler_task_left_running|loop#\d+:.*(awaited_so_far_are_done|every_task_is_remembered|one_task_per_handler))', 'rp_parallel_sibling_running.py'),
    (r'EventBus\.process_event/callsite:event_result_update\\(pending\\)', 'rp_forward_completion_regress.py'),
    (r'EventResult\.update/ensures:typed_', 'rp_result_type_union.py'),
    (r'event_results_filtered/(safety:AssertionError|raises:only_declared)', 'rp_accessor_none_result.py'),
    (r'__await__\.wait/callsite:process_event/requires:inline_bus_is_running', 'rp_stop_then_inline.py'),
    (r'__await__\.wait/(exit:every_taken_event_is_task_done|loop.*nothing_in_hand)', 'rp_timeout_inline_accounting.py'),
    (r'__await__\.wait/callsite:process_event/requires:inline_target', 'rp_await_runs_unrelated.py'),
    (r'__await__\.wait/(loop#\d+:.*awaited_event_not_complete_yet|callsite:get_nowait/requires:stops_draining)', 'rp_await_drains_after_completion.py'),
    (r'__await__\.wait/ensures:complete_at_return_inside_handlers', 'rp_await_gives_up.py'),
    (r'__await__\.wait/callsite:event_completed_signal\.wait/requires:no_blocking_wait', 'rp_await_done_child_with_queued_descendant.py'),
    (r'__await__\.wait/callsite:get_nowait/requires', 'rp_fifo_inversion.py'),
    (r'BaseEvent\.event_bus/ensures', 'rp_event_bus_after_forward.py'),
    (r'EventBus\.(process_event/(ensures:one_wal_append|callsite:_default_wal_handler)|_default_wal_handler/)', 'rp_wal_inline_child.py'),
    (r'EventBus\.expect(\.notify)?/', 'rp_expect_cancelled.py'),
    (r'EventBus\.(execute_handler/raises:only_declared|_execute_handlers/raises:|stop/|_run_loop/callsite:step/requires:not_after_cancel)', 'rp_stop_during_handler.py'),
    (r'EventBus\.dispatch/raises:rejected', 'rp_dispatch_queue_full.py'),
    (r'EventBus\.cleanup_event_history/', 'rp_history_evicts_inflight.py'),
    (r'BaseEvent\.event_cancel_pending_child_processing/', 'rp_cancel_walk_family.py'),
    (r'BaseEvent\.(event_are_all_children_complete|event_mark_complete_if_all_handlers_completed)/', 'rp_completion_descendants.py'),
    (r'event_results_by_handler_name/safety:dictcomp_keys_distinct', 'rp_by_handler_name_duplicates.py'),
    (r'BaseEvent\.(event_results_filtered|event_results_by_handler_id|event_results_list|event_result)/(ensures:|raises:requested_raise)', 'rp_accessor_family.py'),
    (r'process_event/ensures:completion_propagated', 'rp_evicted_parent_never_completes.py'),
    (r'semaphore\.acquire/requires:cached_semaphore', 'rp_semaphore_across_loops.py'),
    (r'helpers\._execute_with_retries/', 'rp_retry_family.py'),
    (r'helpers\.(retry\.wrapper|_acquire_asyncio_semaphore|_get_or_create_semaphore)/(?!.*cached_semaphore)', 'rp_semaphore_family.py'),
]


@replayer(r'.')
def scenario_sweep(pid, ob, spec):
    runs = []
    for pat, script in SCENARIOS:
        if not re.search(pat, ob.name):
            continue
        r = run_native(script, [])
        runs.append(r)
        if r.get('confirmed'):
            return {'confirmed': True, 'mechanism': 'scenario:' + script, 'transcript': r}
    return {'confirmed': False, 'mechanism': 'scenario sweep', 'scenarios_run': [(r['script'], r['exit']) for r in runs],
            'note': 'no registered scenario reproduces this failed obligation on this tree; the verifier model and path signature are attached'}
