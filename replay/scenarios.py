"""Replay templates (registered on import)."""
from .registry import replayer, run_native  # noqa: F401
