"""C06/C11 replay: on a parallel_handlers bus every handler task of an event is awaited to its end before the event is finished and
the global lock released - whatever the other handlers of that event ended with. Exit 1 = a handler of another event started while a
handler that was not awaiting any event was still running, or the event was reported finished with a handler still running."""
import asyncio, sys
from bubus import EventBus, BaseEvent

class PE(BaseEvent): pass
class QE(BaseEvent): pass

async def main(order):
    par = EventBus(name='RpParBus_' + order.replace('-', '_'), parallel_handlers=True)
    other = EventBus(name='RpOtherBus_' + order.replace('-', '_'))
    running, bad = set(), []
    async def slow(e):
        running.add('slow')
        await asyncio.sleep(0.3)            # suspended, but NOT awaiting an event
        running.discard('slow')
        return 'slow done'
    async def quick_failure(e):
        raise ValueError('fails at once')
    async def quick_ok(e):
        return 'ok'
    async def on_q(e):
        if running:
            bad.append('handler of %s started while %s of another event still ran' % (e.event_type, sorted(running)))
    hs = {'fail-first': [quick_failure, slow, quick_ok], 'fail-last': [slow, quick_ok, quick_failure], 'fail-middle': [slow, quick_failure, quick_ok]}[order]
    for h in hs:
        par.on(PE, h)
    other.on(QE, on_q)
    pe = par.dispatch(PE())
    qe = other.dispatch(QE())
    await asyncio.wait_for(pe.event_completed_signal.wait(), 5)
    if running:
        bad.append('event reported complete while %s still ran' % sorted(running))
    st = sorted(r.status for r in pe.event_results.values())
    if st != ['completed', 'completed', 'error']:
        bad.append('results %s' % st)
    await asyncio.wait_for(qe.event_completed_signal.wait(), 5)
    await par.stop(timeout=0); await other.stop(timeout=0)
    print(order, 'violations:', bad)
    return 1 if bad else 0

async def every():
    rc = 0
    for order in (sys.argv[1:] or ['fail-first', 'fail-last', 'fail-middle']):
        rc |= await main(order)
    return rc

sys.exit(asyncio.run(asyncio.wait_for(every(), 60)))
