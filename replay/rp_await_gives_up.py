"""C04 replay (finding F1): an in-handler await must return the child complete. If the handler yields between dispatch and await,
the other bus's run loop takes the child and blocks on the global lock; the awaiting handler spins 1000 zero-sleeps and gives up."""
import asyncio, sys
from bubus import EventBus, BaseEvent

class P(BaseEvent): pass
class Cc(BaseEvent): pass

async def main():
    a, b = EventBus(name='RpF1A'), EventBus(name='RpF1B')
    seen = {}
    async def hp(e):
        c = b.dispatch(Cc())
        await asyncio.sleep(0.01)          # b's run loop dequeues c and waits for the lock held by this handler
        await c
        seen['status'] = c.event_status
        seen['signalled'] = c.event_completed_signal.is_set()
    a.on('P', hp); b.on('Cc', lambda e: 'done')
    await a.dispatch(P())
    await a.wait_until_idle(); await b.wait_until_idle()
    print(seen)
    await a.stop(timeout=0); await b.stop(timeout=0)
    return 1 if (seen.get('status') != 'completed' or not seen.get('signalled')) else 0

sys.exit(asyncio.run(asyncio.wait_for(main(), 30)))
