"""C18 replay: however a pending expect() ends - match, its own timeout, or cancellation of the awaiting task - its temporary
subscription is gone afterwards. Exit 1 = a listener is still registered (or still collects results) after expect() was left."""
import asyncio, sys, logging
from bubus import EventBus, BaseEvent
logging.disable(logging.CRITICAL)

class XE(BaseEvent): pass

def listeners(bus):
    return sum(len(v) for v in bus.handlers.values())

async def main():
    bus = EventBus(name='RpExpectCancel')
    bad = []
    base = listeners(bus)
    # (a) cancelled while pending
    t = asyncio.create_task(bus.expect(XE, timeout=None))
    await asyncio.sleep(0.05)
    t.cancel()
    try:
        await t
    except asyncio.CancelledError:
        pass
    if listeners(bus) != base:
        bad.append('cancelled expect() left %d listener(s)' % (listeners(bus) - base))
    # (b) enclosing timeout
    try:
        await asyncio.wait_for(bus.expect(XE, timeout=None), 0.05)
    except asyncio.TimeoutError:
        pass
    if listeners(bus) != base:
        bad.append('expect() abandoned by an enclosing wait_for left %d listener(s)' % (listeners(bus) - base))
    # (c) own timeout, (d) match
    try:
        await bus.expect(XE, timeout=0.05)
    except (asyncio.TimeoutError, TimeoutError):
        pass
    m = asyncio.create_task(bus.expect(XE, timeout=2))
    await asyncio.sleep(0.02)
    e = bus.dispatch(XE())
    got = await m
    await bus.wait_until_idle()
    if got is not e:
        bad.append('expect() returned another event')
    if listeners(bus) != base:
        bad.append('after timeout/match %d listener(s) remain' % (listeners(bus) - base))
    later = await bus.dispatch(XE())
    if len(later.event_results) != 0:
        bad.append('a later event still collected %d result(s) from stale expect listeners' % len(later.event_results))
    await bus.stop(timeout=0)
    print('violations', bad)
    return 1 if bad else 0

sys.exit(asyncio.run(asyncio.wait_for(main(), 30)))
