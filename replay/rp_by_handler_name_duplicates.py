"""C12 replay: event_results_by_handler_name is a view of the recorded results that "never drops values" - two handlers that share a
function name (two instances' bound methods, two same-named functions from different modules) collide on the dict key and all but the
last value silently disappear. Exit 1 = a recorded, included result is missing from the view."""
import asyncio, sys
from bubus import EventBus, BaseEvent

class NE(BaseEvent): pass

class Service:
    def __init__(self, tag): self.tag = tag
    async def on_event(self, e): return 'from ' + self.tag

async def main():
    bus = EventBus(name='RpByNameBus')
    a, b = Service('a'), Service('b')
    bus.on(NE, a.on_event); bus.on(NE, b.on_event)
    ev = await bus.dispatch(NE())
    by_id = await ev.event_results_by_handler_id()
    by_name = await ev.event_results_by_handler_name()
    lst = await ev.event_results_list()
    print('recorded results:', len(ev.event_results), 'by id:', sorted(by_id.values()), 'list:', lst, 'by name:', by_name)
    await bus.stop(timeout=0)
    missing = [v for v in lst if v not in by_name.values()]
    if missing:
        print('values dropped by event_results_by_handler_name:', missing)
    return 1 if missing else 0

sys.exit(asyncio.run(asyncio.wait_for(main(), 20)))
