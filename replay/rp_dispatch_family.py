"""C07 / C09 replay family over dispatch():
 (a) children: a handler dispatches several children to several buses in interleaved orders (k1->A, k2->A, k1->B, k2->B, k1->A ...):
     every child is listed exactly once among that handler's children, in first-dispatch order;
 (b) paths: an event forwarded round a cycle of buses (A -> B -> C -> A) is processed once per bus and its event_path names each
     bus once, in the order it was reached.
Exit 1 = a duplicate child / a duplicate path entry / a bus that processed the event twice."""
import asyncio, sys, logging, itertools
from bubus import EventBus, BaseEvent
logging.disable(logging.CRITICAL)

class DP(BaseEvent): pass
class DK(BaseEvent): pass
class DF(BaseEvent): pass

async def children_case(order, tag):
    buses = [EventBus(name='RpDispC%s_%d' % (tag, i)) for i in range(3)]
    kids = [DK(), DK()]
    async def h(e):
        for (k, b) in order:
            buses[b].dispatch(kids[k])
    buses[0].on(DP, h)
    p = buses[0].dispatch(DP())
    for b in buses:
        await b.wait_until_idle()
    ch = list(p.event_results.values())[0].event_children
    first = []
    for (k, _b) in order:
        if kids[k] not in first:
            first.append(kids[k])
    bad = []
    if [id(c) for c in ch] != [id(c) for c in first]:
        bad.append('order %s: children %s, expected each child once in first-dispatch order %s' % (order, [kids.index(c) for c in ch], [kids.index(c) for c in first]))
    for b in buses:
        await b.stop(timeout=0)
    return bad

async def path_case(nb, tag):
    buses = [EventBus(name='RpDispP%s_%d' % (tag, i)) for i in range(nb)]
    seen = {b.name: 0 for b in buses}
    for i, b in enumerate(buses):
        def mk(b=b):
            async def count(e):
                seen[b.name] += 1
            return count
        b.on(DF, mk())
        b.on(DF, buses[(i + 1) % nb].dispatch)        # forward round the cycle
    e = buses[0].dispatch(DF())
    for _ in range(3):
        for b in buses:
            await b.wait_until_idle()
    bad = []
    if e.event_path != [b.name for b in buses]:
        bad.append('cycle of %d: event_path %s' % (nb, e.event_path))
    if any(v != 1 for v in seen.values()):
        bad.append('cycle of %d: handler runs per bus %s' % (nb, seen))
    for b in buses:
        await b.stop(timeout=0)
    return bad

async def redispatch_case():
    """a handler on the second bus hands the same event object back to the first bus by an explicit dispatch() call"""
    a, b = EventBus(name='RpDispRA'), EventBus(name='RpDispRB')
    runs = []
    async def on_a(e):
        runs.append('a')
    async def on_b(e):
        runs.append('b')
        a.dispatch(e)                     # already in event_path, but not its last entry
    a.on(DF, on_a); a.on(DF, b.dispatch); b.on(DF, on_b)
    e = a.dispatch(DF())
    for _ in range(3):
        await a.wait_until_idle(); await b.wait_until_idle()
    bad = []
    if e.event_path != ['RpDispRA', 'RpDispRB']:
        bad.append('explicit re-dispatch: event_path %s (a bus is named twice)' % e.event_path)
    if runs != ['a', 'b']:
        bad.append('explicit re-dispatch: handler runs %s' % runs)
    await a.stop(timeout=0); await b.stop(timeout=0)
    return bad

async def main():
    bad = await redispatch_case()
    orders = [[(0, 0), (0, 1)], [(0, 0), (1, 0), (0, 1)], [(0, 0), (1, 1), (0, 2), (1, 0)], [(0, 1), (1, 1), (0, 1), (1, 2), (0, 0)]]
    for i, o in enumerate(orders):
        bad += await children_case(o, str(i))
    for nb in (2, 3, 4):
        bad += await path_case(nb, str(nb))
    print('violations', len(bad))
    for b in bad[:5]:
        print('  ', b)
    return 1 if bad else 0

sys.exit(asyncio.run(asyncio.wait_for(main(), 60)))
