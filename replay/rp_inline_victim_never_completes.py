"""C10 / C03 replay (second witness of design-time finding F5): a handler that awaits a child processes whatever is queued ahead of
the child inline, inside its own task. If the handler's timeout fires while such an unrelated event U is being processed, U's
handler is interrupted and recorded as an error - and U is abandoned half-way: every result of U is terminal, yet U's completion
signal is never set, so `await U` and wait_until_idle() on its bus never return.
Exit 1 = an event with only terminal results whose completion signal is still unset 1 s later."""
import asyncio, sys, logging
from bubus import EventBus, BaseEvent
logging.disable(logging.CRITICAL)

class VP(BaseEvent):
    event_timeout: float | None = 0.3
class VU(BaseEvent):
    event_timeout: float | None = 5
class VC(BaseEvent):
    event_timeout: float | None = 5

async def main():
    bus = EventBus(name='RpInlineVictim')
    async def on_p(e):
        u = bus.dispatch(VU()); e._u = u          # queued ahead of the child
        c = bus.dispatch(VC())
        await c
    async def on_u(e):
        await asyncio.sleep(1.0)                   # still running when the parent's 0.3 s timeout fires
        return 'u'
    async def on_c(e): return 'c'
    bus.on(VP, on_p); bus.on(VU, on_u); bus.on(VC, on_c)
    p = bus.dispatch(VP())
    await asyncio.sleep(1.6)
    u = getattr(p, '_u', None)
    bad = []
    if u is None:
        bad.append('scenario did not run')
    else:
        st = [r.status for r in u.event_results.values()]
        done = u.event_completed_signal is not None and u.event_completed_signal.is_set()
        print('U results', st, [type(r.error).__name__ for r in u.event_results.values()], 'U completion signal set:', done, 'U status:', u.event_status)
        if st and all(s in ('completed', 'error') for s in st) and not done:
            bad.append('U has only terminal results but its completion signal was never set (awaiting it hangs)')
    try:
        await asyncio.wait_for(bus.wait_until_idle(), 1.0)
    except asyncio.TimeoutError:
        bad.append('wait_until_idle() does not return')
    await bus.stop(timeout=0)
    print('violations', bad)
    return 1 if bad else 0

sys.exit(asyncio.run(asyncio.wait_for(main(), 30)))
