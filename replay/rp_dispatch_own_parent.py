"""C09 replay: forwarding an event must never make it its own parent."""
import asyncio, sys
from bubus import EventBus, BaseEvent

class R(BaseEvent): pass

async def main():
    b1, b2 = EventBus(name='RpOwnA'), EventBus(name='RpOwnB')
    b1.on('*', b2.dispatch)
    e = b1.dispatch(R())
    await b1.wait_until_idle(); await b2.wait_until_idle()
    print('event_id', e.event_id, 'parent', e.event_parent_id)
    bad = e.event_parent_id == e.event_id
    await b1.stop(timeout=0); await b2.stop(timeout=0)
    return 1 if bad else 0

sys.exit(asyncio.run(asyncio.wait_for(main(), 30)))
