"""C17 replay: with wal_path set, every event the bus finishes processing gets exactly one WAL line - also a child that a handler awaits
(processed inline by the awaiting handler, not by the run loop). Exit 1 = a processed event has no line, or more than one."""
import asyncio, sys, json, tempfile, os, logging
from bubus import EventBus, BaseEvent
logging.disable(logging.CRITICAL)

class WParent(BaseEvent): pass
class WChild(BaseEvent): pass

async def main():
    d = tempfile.mkdtemp(prefix='rpwal')
    path = os.path.join(d, 'wal.jsonl')
    bus = EventBus(name='RpWalInline', wal_path=path)
    async def on_parent(e):
        c = bus.dispatch(WChild())
        await c                      # inline processing through BaseEvent.__await__
        return 'p'
    async def on_child(e): return 'c'
    bus.on(WParent, on_parent); bus.on(WChild, on_child)
    p = await bus.dispatch(WParent())
    top = await bus.dispatch(WChild())        # a plain top-level event for comparison
    await bus.wait_until_idle()
    await bus.stop(timeout=0)
    ids = []
    if os.path.exists(path):
        for line in open(path):
            ids.append(json.loads(line)['event_id'])
    child = list(p.event_results.values())[0].event_children[0]
    want = {p.event_id: 'parent', child.event_id: 'awaited child', top.event_id: 'top-level'}
    bad = ['%s has %d WAL lines' % (nm, ids.count(i)) for i, nm in want.items() if ids.count(i) != 1]
    print('lines', len(ids), 'violations', bad)
    return 1 if bad else 0

sys.exit(asyncio.run(asyncio.wait_for(main(), 30)))
