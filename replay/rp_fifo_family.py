"""C02 replay family: each bus starts its events in the order they were dispatched to it - whatever the handlers' durations, whether
events arrive in a burst before the run loop starts or trickle in while it is busy, from main code or from inside a handler of the same
bus (without awaiting them). (In-handler `await child` queue-jumping is exercised by the C03/C04/C05 families and finding F14.)
Exit 1 = an event started before an event that was dispatched to the same bus earlier."""
import asyncio, sys, logging
from bubus import EventBus, BaseEvent
logging.disable(logging.CRITICAL)

class FE(BaseEvent):
    n: int = 0
    delay: float = 0.0

async def scenario(tag, delays, trickle, nested):
    bus = EventBus(name='RpFifo' + tag)
    started, dispatched = [], []
    async def h(e):
        started.append(e.n)
        if nested and e.n == 0:
            for k in (100, 101):               # dispatched from inside a handler, not awaited: go to the tail
                dispatched.append(k); bus.dispatch(FE(n=k))
        await asyncio.sleep(e.delay)
    bus.on(FE, h)
    for i, d in enumerate(delays):
        dispatched.append(i); bus.dispatch(FE(n=i, delay=d))
        if trickle:
            await asyncio.sleep(0.002)
    for _ in range(2):
        await bus.wait_until_idle()
    await bus.stop(timeout=0)
    # events dispatched inside the handler of event 0 come after everything dispatched before that handler ran
    want = [x for x in dispatched if x < 100]
    if nested:
        # 100, 101 were dispatched while event 0 ran: after whatever was already queued at that moment, in their own order
        pos = {v: i for i, v in enumerate(started)}
        ok_nested = pos.get(100, -1) < pos.get(101, -1)
        main_order = [x for x in started if x < 100]
        return [] if (main_order == want and ok_nested) else ['%s: started %s, dispatched %s' % (tag, started, dispatched)]
    return [] if started == want else ['%s: started %s, dispatched %s' % (tag, started, dispatched)]

async def main():
    bad = []
    for i, (delays, trickle, nested) in enumerate([([0.02, 0.0, 0.01, 0.0], False, False), ([0.0] * 6, False, False), ([0.01, 0.0, 0.02], True, False),
                                                   ([0.01, 0.0, 0.0], False, True), ([0.0, 0.01], True, True)]):
        bad += await scenario(str(i), delays, trickle, nested)
    print('violations', bad[:3])
    return 1 if bad else 0

sys.exit(asyncio.run(asyncio.wait_for(main(), 60)))
