"""C02 replay (finding F14): B's run loop has dequeued E1 and waits for the global lock; A's handler dispatches E2 to B and awaits
it: the inline loop takes E2 from B's queue and B processes E2 before E1 (E2 is neither awaited-by nor a descendant of E1's waiter)."""
import asyncio, sys
from bubus import EventBus, BaseEvent

class P(BaseEvent): pass
class E(BaseEvent):
    n: int = 0

async def main():
    a, b = EventBus(name='RpF14A'), EventBus(name='RpF14B')
    order = []
    async def hp(e):
        b.dispatch(E(n=1))                 # E1: fire and forget
        await asyncio.sleep(0.01)          # B's run loop takes E1 off the queue and blocks on the lock we hold
        await b.dispatch(E(n=2))           # E2: awaited -> processed inline, ahead of E1
    a.on('P', hp); b.on('E', lambda e: order.append(e.n))
    await a.dispatch(P())
    await a.wait_until_idle(); await b.wait_until_idle()
    print('B processed in order', order)
    await a.stop(timeout=0); await b.stop(timeout=0)
    return 1 if order == [2, 1] else 0

sys.exit(asyncio.run(asyncio.wait_for(main(), 30)))
