"""C09 replay: a child dispatched by a handler (even to two buses) appears exactly once among that handler's children."""
import asyncio, sys
from bubus import EventBus, BaseEvent

class P(BaseEvent): pass
class K(BaseEvent): pass

async def main():
    b1, b2 = EventBus(name='RpTwiceA'), EventBus(name='RpTwiceB')
    async def h(e):
        k = K()
        b1.dispatch(k)
        b2.dispatch(k)
    b1.on('P', h)
    p = b1.dispatch(P())
    await b1.wait_until_idle(); await b2.wait_until_idle()
    r = list(p.event_results.values())[0]
    n = len(r.event_children)
    distinct = len({id(c) for c in r.event_children})
    print('children', n, 'distinct', distinct)
    await b1.stop(timeout=0); await b2.stop(timeout=0)
    return 1 if n != distinct else 0

sys.exit(asyncio.run(asyncio.wait_for(main(), 30)))
