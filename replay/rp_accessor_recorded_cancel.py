"""C11/C12 replay: with raise_if_any=False the accessors must not raise a recorded handler error - also when the recorded error
is the CancelledError that bubus itself records on child handlers cancelled by a parent timeout."""
import asyncio, sys
from bubus import EventBus, BaseEvent

class P(BaseEvent):
    event_timeout: float | None = 0.05
class K(BaseEvent): pass

async def main():
    bus = EventBus(name='RpRecCancelBus')
    kids = []
    async def hp(e):
        kids.append(bus.dispatch(K()))          # fire and forget: still pending when the parent times out
        await asyncio.sleep(0.3)
    bus.on('P', hp); bus.on('K', lambda e: 'k')
    bus.dispatch(P())
    await asyncio.sleep(0.6)
    k = kids[0]
    print('child status', k.event_status, 'signalled', k.event_completed_signal.is_set(), 'errors', [type(r.error).__name__ for r in k.event_results.values()])
    try:
        vals = await asyncio.wait_for(k.event_results_list(raise_if_any=False, raise_if_none=False), 2)
        print('accessor returned', vals)
        bad = False
    except asyncio.TimeoutError:
        print('accessor timed out (event never completed)'); bad = False
    except BaseException as ex:
        print('accessor raised', type(ex).__name__, 'although raise_if_any=False')
        bad = True
    await bus.stop(timeout=0)
    return 1 if bad else 0

sys.exit(asyncio.run(asyncio.wait_for(main(), 30)))
