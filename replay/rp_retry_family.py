"""C19 replay family: the real bubus.helpers.retry driven through a bounded family of parameters and per-attempt outcome
sequences, compared with an independent reference of the property. Exit 1 (and print the witness) on the first disagreement."""
import asyncio, itertools, sys
import logging
import bubus.helpers as H
logging.disable(logging.CRITICAL)

class Listed(Exception): pass
class Unlisted(Exception): pass

def reference(retries, outcomes, retry_on_listed):
    """-> (calls, result_kind, n_sleeps) per the property."""
    calls = 0
    for k in range(retries + 1):
        o = outcomes[k] if k < len(outcomes) else 'ok'
        calls += 1
        if o == 'ok':
            return calls, 'ok', k
        if o == 'unlisted' and retry_on_listed:
            return calls, 'unlisted', k
        if k == retries:
            return calls, o, k
    return calls, 'bug', 0

async def run_case(retries, wait, bf, timeout, outcomes, retry_on_listed):
    sleeps, calls = [], [0]
    real_sleep = asyncio.sleep
    async def fake_sleep(t, *a, **k):
        # backoff sleeps are recorded and take `t` virtual seconds = a real yield only if t is below the per-attempt timeout
        sleeps.append(t)
        await real_sleep(min(t, 0.2) if t >= timeout else 0)
    async def fn():
        i = calls[0]; calls[0] += 1
        o = outcomes[i] if i < len(outcomes) else 'ok'
        if o == 'ok': return 'value%d' % i
        if o == 'listed': raise Listed(i)
        if o == 'unlisted': raise Unlisted(i)
        if o == 'overrun':
            await real_sleep(timeout * 3)
            return 'late'
    wrapped = H.retry(wait=wait, retries=retries, timeout=timeout, backoff_factor=bf, retry_on=(Listed, TimeoutError) if retry_on_listed else None)(fn)
    H.asyncio.sleep = fake_sleep
    try:
        try:
            v = await asyncio.wait_for(wrapped(), 5)
            kind = 'ok'
        except Listed: kind = 'listed'
        except Unlisted: kind = 'unlisted'
        except TimeoutError: kind = 'overrun'
    finally:
        H.asyncio.sleep = real_sleep
    exp_calls, exp_kind, exp_sleeps = reference(retries, outcomes, retry_on_listed)
    exp_waits = [wait * bf ** k for k in range(exp_sleeps)]
    ok = (calls[0] == exp_calls and kind == exp_kind and len(sleeps) == exp_sleeps and all(abs(a - b) < 1e-9 for a, b in zip(sleeps, exp_waits)))
    return ok, dict(retries=retries, wait=wait, backoff=bf, timeout=timeout, outcomes=outcomes, retry_on_listed=retry_on_listed,
                    observed=dict(calls=calls[0], kind=kind, sleeps=sleeps), expected=dict(calls=exp_calls, kind=exp_kind, sleeps=exp_waits))

async def main():
    n = 0
    for retries in (0, 1, 2):
        for outcomes in itertools.product(('ok', 'listed', 'unlisted', 'overrun'), repeat=retries + 1):
            for wait, timeout in ((0.0, 0.05), (0.01, 0.05), (0.08, 0.05)):
                for bf in (1.0, 2.0):
                    for rol in (True, False):
                        if outcomes.count('overrun') > 1:
                            continue
                        n += 1
                        ok, w = await run_case(retries, wait, bf, timeout, list(outcomes), rol)
                        if not ok:
                            print('C19 witness after', n, 'cases:', w)
                            return 1
    print('C19 family: %d cases agree with the reference' % n)
    return 0

sys.exit(asyncio.run(main()))
