"""C16 replay: cancelling the bus's background task (as asyncio.run does at exit) must terminate it."""
import subprocess, sys, os
prog = '''
import asyncio
from bubus import EventBus, BaseEvent
class E(BaseEvent): pass
async def main():
    bus = EventBus(name='RpExitBus')
    bus.on('E', lambda e: None)
    await bus.dispatch(E())
    # bus left running on purpose
asyncio.run(main())
print('exited')
'''
try:
    r = subprocess.run([sys.executable, '-c', prog], capture_output=True, text=True, timeout=8, env=os.environ)
    print('exit', r.returncode, r.stdout.strip()[-200:], r.stderr.strip()[-300:])
    sys.exit(0 if 'exited' in r.stdout else 1)
except subprocess.TimeoutExpired:
    print('asyncio.run() did not return within 8 s: the run loop task swallowed its cancellation')
    sys.exit(1)
