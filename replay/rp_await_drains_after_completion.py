"""C05 replay: once the awaited event is complete, the awaiting handler takes nothing more from any queue.
Parent handler runs on bus Y and awaits a child on bus X; an unrelated event U is queued on Y (whose run loop is busy running the
parent handler). If the inline sweep reaches X before Y, the child completes first and U must be left alone until the parent handler
has returned. (When the sweep reaches Y first, U runs before the child - that is the separate, recorded finding F0 - and the attempt
is skipped.) Exit 1 = U's handler started inside the parent's await although the awaited child was already complete."""
import asyncio, sys, logging
from bubus import EventBus, BaseEvent
logging.disable(logging.CRITICAL)

class DPar(BaseEvent): pass
class DChild(BaseEvent): pass
class DUnrelated(BaseEvent): pass

async def attempt(i):
    x, y = EventBus(name='RpDrainX%d' % i), EventBus(name='RpDrainY%d' % i)
    order = [b.name for b in list(EventBus.all_instances) if b in (x, y)]
    st = {'in_await': False, 'bad': []}
    child = {}
    async def on_par(e):
        y.dispatch(DUnrelated())                 # queued on the busy bus
        c = x.dispatch(DChild()); child['c'] = c
        st['in_await'] = True
        await c
        st['in_await'] = False
    async def on_child(e): return 'c'
    async def on_u(e):
        c = child.get('c')
        if st['in_await'] and c is not None and c.event_completed_signal is not None and c.event_completed_signal.is_set():
            st['bad'].append('unrelated event processed inside the await after the awaited child had completed')
    y.on(DPar, on_par); x.on(DChild, on_child); y.on(DUnrelated, on_u)
    p = y.dispatch(DPar())
    await asyncio.wait_for(p.event_completed_signal.wait(), 10)
    await y.wait_until_idle(); await x.wait_until_idle()
    await x.stop(timeout=0); await y.stop(timeout=0)
    return order, st['bad']

async def main():
    decided, bad = 0, []
    for i in range(12):
        order, b = await attempt(i)
        if order and order[0].startswith('RpDrainX'):
            decided += 1
            bad += b
        if decided >= 3:
            break
    print('attempts with X swept before Y:', decided, 'violations', bad[:2])
    return 1 if bad else 0

sys.exit(asyncio.run(asyncio.wait_for(main(), 60)))
