"""C13 replay: when a bounded history overflows, completed events are evicted before started ones. An event that already finished on a
forwarding bus but whose handler on THIS (bounded) bus is still running is in flight here: it must outlive a genuinely completed
event. Exit 1 = the in-flight event was evicted while a completed one was kept."""
import asyncio, sys, logging
from bubus import EventBus, BaseEvent
logging.disable(logging.CRITICAL)

class HF(BaseEvent): pass
class HC(BaseEvent): pass
class HD(BaseEvent): pass

async def main():
    a = EventBus(name='RpHistA')
    b = EventBus(name='RpHistB', max_history_size=2)
    started = asyncio.Event()
    async def slow_on_b(e):
        started.set()
        await asyncio.sleep(0.4)
        return 'b'
    async def quick(e): return 'q'
    a.on(HF, b.dispatch)
    b.on(HF, slow_on_b); b.on(HC, quick); b.on(HD, quick)
    f = HF()                                   # created first (oldest)
    c = await b.dispatch(HC())                 # completed on B, created later than f
    a.dispatch(f)                              # finishes on A at once, is forwarded to B
    await asyncio.wait_for(started.wait(), 5)  # f's handler on B is now running
    d = b.dispatch(HD())                       # overflow: one of {c, f} must go
    hist = set(b.event_history)
    bad = []
    print('f status', f.event_status, 'in history:', f.event_id in hist, '| c status', c.event_status, 'in history:', c.event_id in hist, '| size', len(hist))
    if f.event_id not in hist and c.event_id in hist:
        bad.append('the in-flight (started) event was evicted while a completed event was kept')
    await asyncio.sleep(0.6)
    await a.stop(timeout=0); await b.stop(timeout=0)
    print('violations', bad)
    return 1 if bad else 0

sys.exit(asyncio.run(asyncio.wait_for(main(), 30)))
