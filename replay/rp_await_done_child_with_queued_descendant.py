"""C04 replay: a handler awaits a child whose own handlers have ALREADY finished but which still has a descendant sitting in a queue
(the queue of the bus the awaiting handler blocks). The await must drain that descendant inline and return with the child complete;
blocking on the completion signal while holding the global lock can only end with the handler's timeout.
Exit 1 = the await did not return within 1 s (handler timeout 3 s), or returned with the child incomplete."""
import asyncio, sys, time, logging
from bubus import EventBus, BaseEvent
logging.disable(logging.CRITICAL)

class WP(BaseEvent):
    event_timeout: float | None = 3
class WA(BaseEvent): pass
class WB(BaseEvent): pass
class WG(BaseEvent): pass

async def main():
    bus = EventBus(name='RpAwaitDone')
    out = {}
    async def on_p(e):
        a = bus.dispatch(WA())
        b = bus.dispatch(WB())
        await b                       # FIFO: runs A's handler inline first (side effect), leaving A's grandchild queued
        out['a_handlers_done_before_await'] = all(r.status in ('completed', 'error') for r in a.event_results.values()) and len(a.event_results) > 0
        t0 = time.monotonic()
        await a
        out['await_a_seconds'] = time.monotonic() - t0
        out['a_complete_at_return'] = a.event_completed_signal.is_set()
        return 'p'
    async def on_a(e):
        bus.dispatch(WG())            # fire and forget
        return 'a'
    async def on_b(e): return 'b'
    async def on_g(e): return 'g'
    bus.on(WP, on_p); bus.on(WA, on_a); bus.on(WB, on_b); bus.on(WG, on_g)
    p = bus.dispatch(WP())
    await asyncio.wait_for(p.event_completed_signal.wait(), 10)
    pres = list(p.event_results.values())[0]
    print(out, 'parent result', pres.status, type(pres.error).__name__ if pres.error else None)
    await bus.stop(timeout=0)
    bad = []
    if not out.get('a_handlers_done_before_await'):
        print('note: scenario precondition not met (A not yet run when awaited)')
    if pres.status != 'completed':
        bad.append('parent handler ended %s (%r)' % (pres.status, pres.error))
    if out.get('await_a_seconds', 99) > 1.0:
        bad.append('await of the finished child blocked for %.1fs' % out.get('await_a_seconds', 99))
    if out.get('a_complete_at_return') is False:
        bad.append('await returned with the child incomplete')
    print('violations', bad)
    return 1 if bad else 0

sys.exit(asyncio.run(asyncio.wait_for(main(), 30)))
