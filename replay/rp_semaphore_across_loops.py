"""C20 replay (finding F13): a retry semaphore contended in one event loop must still work in a later event loop of the same process."""
import asyncio, sys
from bubus.helpers import retry

@retry(retries=0, timeout=2, semaphore_limit=1, semaphore_name='rp_f13_sem', semaphore_lax=False, semaphore_timeout=2)
async def work():
    await asyncio.sleep(0.05)
    return 1

async def contended():
    return await asyncio.gather(work(), work(), return_exceptions=True)

r1 = asyncio.run(contended())
r2 = asyncio.run(contended())
print('loop 1:', r1, 'loop 2:', [type(x).__name__ if isinstance(x, BaseException) else x for x in r2])
sys.exit(1 if any(isinstance(x, RuntimeError) for x in r2) else 0)
