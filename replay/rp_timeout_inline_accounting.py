"""C10/C15 replay (finding F5, accounting part): a handler timeout that fires while the awaiting handler is processing another
event inline must not skip that event's task_done()."""
import asyncio, sys
from bubus import EventBus, BaseEvent

class P(BaseEvent):
    event_timeout: float | None = 0.05
class X(BaseEvent): pass
class K(BaseEvent): pass

async def main():
    bus = EventBus(name='RpF5Bus')
    async def hx(e):
        await asyncio.sleep(0.2)       # unrelated, slow
    async def hp(e):
        await bus.dispatch(K())        # inline loop takes X first (queued before K), parent times out meanwhile
    bus.on('X', hx); bus.on('P', hp); bus.on('K', lambda e: None)
    bus.dispatch(P()); bus.dispatch(X())
    await asyncio.sleep(0.6)
    q = bus.event_queue
    print('qsize', q.qsize(), 'unfinished', q._unfinished_tasks)
    bad = q._unfinished_tasks > q.qsize()
    await bus.stop(timeout=0)
    return 1 if bad else 0

sys.exit(asyncio.run(asyncio.wait_for(main(), 30)))
