"""C10 / C08 replay family: when a handler times out, the cancellation walk over the events dispatched below it
 - turns every still-pending handler result into an error (also below children whose own handlers are already done), and
 - leaves every result that already finished (completed, or failed with its own error) exactly as it was.
Exit 1 = a pending result survived the walk, or a finished result was overwritten."""
import asyncio, sys, logging
from bubus import EventBus, BaseEvent
logging.disable(logging.CRITICAL)

class CP(BaseEvent):
    event_timeout: float | None = 0.3
class CK(BaseEvent):
    event_timeout: float | None = 5
class CF(BaseEvent):
    event_timeout: float | None = 5
class CG(BaseEvent):
    event_timeout: float | None = 5

async def main():
    bus = EventBus(name='RpCancelWalk')
    bad = []
    async def on_p(e):
        f = bus.dispatch(CF())
        try:
            await f                               # a child that FAILED and is complete before the timeout
        except Exception:
            pass
        k = bus.dispatch(CK())
        await k                                   # processed inline; stays incomplete because of its grandchild
        await asyncio.sleep(2)                    # never reached before the timeout
    async def on_k(e):
        bus.dispatch(CG())                        # not awaited
        return 'k done'
    async def g_slow(e):
        await asyncio.sleep(1.0)
        return 'g slow done'
    async def g_second(e):
        return 'g second done'
    boom = ValueError('child failed on its own')
    async def on_f(e):
        raise boom
    bus.on(CF, on_f)
    bus.on(CP, on_p); bus.on(CK, on_k); bus.on(CG, g_slow); bus.on(CG, g_second)
    p = bus.dispatch(CP())
    await asyncio.sleep(0.6)                      # the parent handler has timed out by now, g_slow is still running
    pres = list(p.event_results.values())[0]
    kids = {c.event_type: c for c in pres.event_children}
    k = kids.get('CK')
    f = kids.get('CF')
    if f is not None:
        fr = list(f.event_results.values())[0]
        if fr.status != 'error' or fr.error is not boom:
            bad.append("the recorded error of an already finished child result was overwritten: %s %r" % (fr.status, fr.error))
    else:
        bad.append('scenario did not build the tree (no failed child)')
    g = None
    if k is not None:
        kr = list(k.event_results.values())[0]
        g = kr.event_children[0] if kr.event_children else None
        if kr.status != 'completed' or kr.result != 'k done':
            bad.append("finished result of the child was overwritten: status=%s result=%r error=%r" % (kr.status, kr.result, kr.error))
    if g is None:
        bad.append('scenario did not build the tree (no grandchild)')
    else:
        by_name = {r.handler_name.split('.')[-1]: r for r in g.event_results.values()}
        s, t = by_name.get('g_slow'), by_name.get('g_second')
        print('parent result:', pres.status, type(pres.error).__name__, '| g_slow:', s and s.status, '| g_second:', t and t.status, t and type(t.error).__name__)
        if pres.status != 'error':
            bad.append('parent handler did not time out (status %s)' % pres.status)
        # (g_slow itself runs inline inside the timed-out handler's task: it is interrupted for real, not by the walk)
        if t is None or t.status == 'pending':
            bad.append('a PENDING result below a child whose handlers were done survived the walk')
    await bus.stop(timeout=0)
    print('violations', bad)
    return 1 if bad else 0

sys.exit(asyncio.run(asyncio.wait_for(main(), 30)))
