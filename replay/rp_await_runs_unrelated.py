"""C05 replay (finding F0): between the start of an in-handler await and the child's completion, no unrelated event's handler may run."""
import asyncio, sys
from bubus import EventBus, BaseEvent

class P(BaseEvent): pass
class X(BaseEvent): pass
class Cc(BaseEvent): pass

async def main():
    bus = EventBus(name='RpF0Bus')
    log = []
    async def hp(e):
        log.append('P-begin')
        await bus.dispatch(Cc())
        log.append('P-end')
    bus.on('P', hp); bus.on('X', lambda e: log.append('X')); bus.on('Cc', lambda e: log.append('C'))
    bus.dispatch(P()); bus.dispatch(X())
    await bus.wait_until_idle()
    print(log)
    i, j = log.index('P-begin'), log.index('P-end')
    bad = 'X' in log[i:j]
    await bus.stop(timeout=0)
    return 1 if bad else 0

sys.exit(asyncio.run(asyncio.wait_for(main(), 30)))
