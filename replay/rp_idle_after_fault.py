"""C15/C10 replay (queue accounting): every dequeued event is task_done()d, even after an event whose processing raised
(here: the recursion guard RuntimeError for a self-recursive handler, depth 3)."""
import asyncio, sys
from bubus import EventBus, BaseEvent

class R(BaseEvent):
    depth: int = 0

async def main():
    bus = EventBus(name='RpIdleBus')
    async def h(e):
        if e.depth < 3:
            bus.dispatch(R(depth=e.depth + 1))
    bus.on('R', h)
    bus.dispatch(R())
    try:
        await asyncio.wait_for(bus.wait_until_idle(), 3)
        hung = False
    except asyncio.TimeoutError:
        hung = True
    q = bus.event_queue
    print('hung', hung, 'qsize', q.qsize(), 'unfinished', q._unfinished_tasks)
    await bus.stop(timeout=0)
    return 1 if q._unfinished_tasks > q.qsize() else 0   # accounting only; the never-completing event itself is rp_recursion_guard_hang.py

sys.exit(asyncio.run(asyncio.wait_for(main(), 30)))
