"""From a failed obligation to a run of the real code (DESIGN.md section 7).

Replayers are keyed by a regular expression over the obligation name. Each gets the solver's input valuation
(obligation.meta['inputs_model']) and runs the REAL package under the same interpreter, from the same working tree
the VCs came from. No replayer / not reproduced => confirmed False, and the VIOLATION line ends no-failing-input-found."""
from __future__ import annotations

import os
import re
import subprocess
import sys

REPLAYERS: list[tuple[str, object]] = []


def replayer(pattern: str):
    def deco(fn):
        REPLAYERS.append((pattern, fn))
        return fn
    return deco


_RUNS: dict = {}


def run_native(script: str, args: list[str], timeout=120) -> dict:
    """Run a replay script against the real code of the tree under verification (PYVC_REPO or /repo); once per check run."""
    key = (script, tuple(args))
    if key not in _RUNS:
        _RUNS[key] = _run_native(script, args, timeout)
    return _RUNS[key]


def _run_native(script: str, args: list[str], timeout=120) -> dict:
    repo = os.environ.get('PYVC_REPO', '/repo')
    env = dict(os.environ, PYTHONPATH=repo + os.pathsep + os.environ.get('PYTHONPATH', ''), BUBUS_LOGGING_LEVEL='CRITICAL')
    here = os.path.dirname(os.path.abspath(__file__))
    try:
        r = subprocess.run([sys.executable, os.path.join(here, script)] + args, capture_output=True, text=True, timeout=timeout, env=env, cwd=here)
        return {'script': script, 'args': args, 'exit': r.returncode, 'stdout': r.stdout[-3000:], 'stderr': r.stderr[-1500:],
                'confirmed': r.returncode == 1}
    except subprocess.TimeoutExpired as e:
        return {'script': script, 'args': args, 'exit': None, 'stdout': (e.stdout or '')[-2000:] if isinstance(e.stdout, str) else '', 'stderr': 'timeout',
                'confirmed': False}


def replay(pid: str, ob, spec) -> dict:
    for pat, fn in REPLAYERS:
        if re.search(pat, ob.name):
            try:
                out = fn(pid, ob, spec)
                if out is not None:
                    out.setdefault('mechanism', fn.__name__)
                    return out
            except Exception as e:  # a broken replayer must not hide the violation
                return {'confirmed': False, 'mechanism': fn.__name__, 'error': repr(e)}
    return {'confirmed': False, 'mechanism': 'none', 'note': 'no native replay template matches this obligation; the verifier model and path signature are attached'}


from . import scenarios  # noqa: E402,F401  (registers replayers)
