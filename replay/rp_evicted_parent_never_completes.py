"""C13/C03 replay (finding F11): eviction must not change what completes: a started parent evicted from a small history (its
fire-and-forget children outnumber max_history_size) must still be signalled once all its children are complete."""
import asyncio, sys
from bubus import EventBus, BaseEvent

class P(BaseEvent): pass
class K(BaseEvent): pass

async def main():
    bus = EventBus(name='RpF11Bus', max_history_size=3)
    async def hp(e):
        for _ in range(6):
            bus.dispatch(K())
    bus.on('P', hp); bus.on('K', lambda e: None)
    p = bus.dispatch(P())
    try:
        await asyncio.wait_for(p.event_completed_signal.wait(), 3)
        done = True
    except asyncio.TimeoutError:
        done = False
    kids = [c.event_status for c in p.event_children]
    print('parent signalled', done, 'children', kids, 'parent in history', p.event_id in bus.event_history)
    await bus.stop(timeout=0)
    return 1 if (not done and all(s == 'completed' for s in kids)) else 0

sys.exit(asyncio.run(asyncio.wait_for(main(), 30)))
