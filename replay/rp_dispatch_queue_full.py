"""C14 / C15 replay: a dispatch rejected by the full queue (asyncio.QueueFull) leaves no trace - the rejected event is neither in the
history nor among the children of the handler that tried to dispatch it - and everything that WAS accepted completes: the parent
completes and wait_until_idle() returns. (Bounded history of 10 so that the 100-pending capacity check does not fire first.)
Exit 1 = a rejected event left a trace, the parent never completed, or wait_until_idle() hung."""
import asyncio, sys, logging
from bubus import EventBus, BaseEvent
logging.disable(logging.CRITICAL)

class QP(BaseEvent): pass
class QW(BaseEvent): pass

async def main():
    front = EventBus(name='RpQFront')
    worker = EventBus(name='RpQWorker', max_history_size=10)
    rejected, accepted = [], []
    async def fan_out(e):
        for _ in range(70):
            w = QW()
            try:
                worker.dispatch(w)
                accepted.append(w)
            except asyncio.QueueFull:
                rejected.append(w)
            except RuntimeError as x:            # capacity pre-check: also a rejection
                rejected.append(w)
        return len(accepted)
    async def work(e): return 'w'
    front.on(QP, fan_out); worker.on(QW, work)
    p = front.dispatch(QP())
    bad = []
    try:
        await asyncio.wait_for(p.event_completed_signal.wait(), 5)
    except asyncio.TimeoutError:
        bad.append('the dispatching parent never completed')
    try:
        await asyncio.wait_for(worker.wait_until_idle(), 5)
    except asyncio.TimeoutError:
        bad.append('wait_until_idle() of the worker bus did not return')
    kids = list(p.event_results.values())[0].event_children if p.event_results else []
    rej_ids = {w.event_id for w in rejected}
    if any(c.event_id in rej_ids for c in kids):
        bad.append('%d rejected event(s) recorded as children of the dispatching handler' % sum(1 for c in kids if c.event_id in rej_ids))
    if any(i in worker.event_history for i in rej_ids):
        bad.append('%d rejected event(s) present in the history' % sum(1 for i in rej_ids if i in worker.event_history))
    print('accepted', len(accepted), 'rejected', len(rejected), 'violations', bad)
    await front.stop(timeout=0); await worker.stop(timeout=0)
    return 1 if bad else 0

sys.exit(asyncio.run(asyncio.wait_for(main(), 30)))
