"""C06 replay: a bus first used from inside a handler must still take the global lock (no overlapping handlers across buses)."""
import asyncio, sys
from bubus import EventBus, BaseEvent

class A(BaseEvent): pass
class X(BaseEvent): pass
class Cc(BaseEvent): pass

async def main():
    b1, b2 = EventBus(name='RpLockA'), EventBus(name='RpLockB')
    log = []
    async def h_first(e):
        b2.dispatch(Cc())          # b2's run loop task is created here, inside a handler of b1
    async def h_x(e):
        log.append('x-in'); await asyncio.sleep(0.05); log.append('x-out')
    async def h_c(e):
        log.append('c-in'); await asyncio.sleep(0.05); log.append('c-out')
    b1.on('A', h_first); b1.on('X', h_x); b2.on('Cc', h_c)
    await b1.dispatch(A())
    await b1.wait_until_idle(); await b2.wait_until_idle()
    log.clear()
    b1.dispatch(X()); b2.dispatch(Cc())
    await b1.wait_until_idle(); await b2.wait_until_idle()
    print(log)
    overlap = log in (['x-in', 'c-in', 'x-out', 'c-out'], ['c-in', 'x-in', 'c-out', 'x-out'], ['x-in', 'c-in', 'c-out', 'x-out'], ['c-in', 'x-in', 'x-out', 'c-out'])
    await b1.stop(timeout=0); await b2.stop(timeout=0)
    return 1 if overlap else 0

sys.exit(asyncio.run(asyncio.wait_for(main(), 30)))
