"""C03 replay family: an event's completion signal is set only when every descendant (children, grandchildren, ...) is complete.
Trees of depth 3 where handlers dispatch children WITHOUT awaiting them and the deepest handlers are slow; at the moment each ancestor
is observed complete, every event recorded below it must be complete too. Exit 1 = an ancestor was complete while a descendant was not."""
import asyncio, sys, logging
from bubus import EventBus, BaseEvent
logging.disable(logging.CRITICAL)

class Root(BaseEvent): pass
class Mid(BaseEvent): pass
class Leaf(BaseEvent): pass

def descendants(e):
    out = []
    for c in e.event_children:
        out.append(c); out.extend(descendants(c))
    return out

async def scenario(fanout, leaf_delay, two_buses):
    bus = EventBus(name='RpDesc_%d_%d' % (fanout, int(two_buses)))
    other = EventBus(name='RpDescO_%d_%d' % (fanout, int(two_buses))) if two_buses else bus
    bad = []
    async def on_root(e):
        for _ in range(fanout):
            bus.dispatch(Mid())
        return 'root'
    async def on_mid(e):
        for _ in range(fanout):
            other.dispatch(Leaf())
        return 'mid'
    async def on_leaf(e):
        await asyncio.sleep(leaf_delay)
        return 'leaf'
    bus.on(Root, on_root); bus.on(Mid, on_mid); other.on(Leaf, on_leaf)
    root = bus.dispatch(Root())
    # poll: whenever some event of the tree is complete, everything below it must be
    for _ in range(400):
        for e in [root] + descendants(root):
            if e.event_completed_signal is not None and e.event_completed_signal.is_set():
                inc = [d for d in descendants(e) if not (d.event_completed_signal is not None and d.event_completed_signal.is_set())]
                if inc:
                    bad.append('%s complete while %d descendant(s) are not (e.g. %s, status %s)' % (e.event_type, len(inc), inc[0].event_type, inc[0].event_status))
        if bad or (root.event_completed_signal.is_set()):
            break
        await asyncio.sleep(0.005)
    await asyncio.wait_for(root.event_completed_signal.wait(), 10)
    n = len(descendants(root))
    if n != fanout + fanout * fanout:
        bad.append('tree has %d descendants, expected %d' % (n, fanout + fanout * fanout))
    await bus.stop(timeout=0)
    if two_buses:
        await other.stop(timeout=0)
    return bad

async def main():
    rc = 0
    for fanout in (1, 2):
        for two in (False, True):
            bad = await scenario(fanout, 0.03, two)
            print('fanout', fanout, 'two_buses', two, 'violations', bad[:2])
            rc |= 1 if bad else 0
    return rc

sys.exit(asyncio.run(asyncio.wait_for(main(), 60)))
