"""C16 replay: stop() (and a plain cancellation of the run-loop task) arriving while an async handler is mid-flight ends processing:
no further handler of that event starts afterwards and the run-loop task finishes. Exit 1 = a handler started after stop() had
returned, or the run-loop task was still alive after its cancellation."""
import asyncio, sys, logging
from bubus import EventBus, BaseEvent
logging.disable(logging.CRITICAL)

class SE(BaseEvent): pass

async def case(how):
    bus = EventBus(name='RpStopMid_' + how)
    log = []
    async def first(e):
        log.append('first:start')
        await asyncio.sleep(0.5)
        log.append('first:end')
    async def second(e):
        log.append('second:start')
    bus.on(SE, first); bus.on(SE, second)
    bus.dispatch(SE())
    await asyncio.sleep(0.1)                       # first handler is mid-flight
    task = bus._runloop_task
    if how == 'stop':
        await bus.stop(timeout=0)
    else:
        task.cancel()
    log.append('ended')
    await asyncio.sleep(0.8)
    bad = []
    after = log[log.index('ended') + 1:]
    if any(x.endswith(':start') for x in after):
        bad.append('%s: %s after the bus was stopped/cancelled' % (how, after))
    if task is not None and not task.done():
        bad.append('%s: run-loop task still running after its cancellation' % how)
        task.cancel()
    if how != 'stop':
        await bus.stop(timeout=0)
    return bad

async def main():
    bad = []
    for how in ('stop', 'cancel'):
        bad += await case(how)
    print('violations', bad)
    return 1 if bad else 0

sys.exit(asyncio.run(asyncio.wait_for(main(), 30)))
