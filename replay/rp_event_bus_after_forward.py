"""C09 replay (finding F9): inside a handler, event.event_bus must be the bus running that handler, also after the event was forwarded."""
import asyncio, sys
from bubus import EventBus, BaseEvent

class E(BaseEvent): pass

async def main():
    b3, b4 = EventBus(name='RpF9A'), EventBus(name='RpF9B')
    seen = {}
    def h3(e):
        seen['bus'] = e.event_bus.name
    b3.on('*', b4.dispatch)
    b3.on('*', h3)
    await b3.dispatch(E())
    await b3.wait_until_idle(); await b4.wait_until_idle()
    print('handler registered on RpF9A saw event.event_bus =', seen.get('bus'))
    await b3.stop(timeout=0); await b4.stop(timeout=0)
    return 1 if seen.get('bus') != 'RpF9A' else 0

sys.exit(asyncio.run(asyncio.wait_for(main(), 30)))
