"""C08 replay (finding F4): once awaiting a forwarded event returned, its status must not regress and no result may be added."""
import asyncio, sys
from bubus import EventBus, BaseEvent

class E(BaseEvent): pass

async def main():
    b1, b2 = EventBus(name='RpF4A'), EventBus(name='RpF4B')
    async def slow(e):
        await asyncio.sleep(0.05)
        return 'late'
    b1.on('*', b2.dispatch)
    b2.on('E', slow)
    e = await b1.dispatch(E())
    snap = (e.event_status, sorted(e.event_results))
    regress = False
    for _ in range(20):
        await asyncio.sleep(0.01)
        now = (e.event_status, sorted(e.event_results))
        if now[0] != 'completed' or now[1] != snap[1]:
            regress = True
            print('after await returned: was', snap[0], len(snap[1]), 'results; now', now[0], len(now[1]), 'results')
            break
    await b1.wait_until_idle(); await b2.wait_until_idle()
    await b1.stop(timeout=0); await b2.stop(timeout=0)
    return 1 if (snap[0] == 'completed' and regress) else 0

sys.exit(asyncio.run(asyncio.wait_for(main(), 30)))
