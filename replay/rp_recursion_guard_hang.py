"""C03/C15/C01/C11 replay (finding F2): the recursion guard raises out of process_event, so the event that trips it
never gets results, is never completed, awaiting it hangs and wait_until_idle() never returns."""
import asyncio, sys
from bubus import EventBus, BaseEvent

class R(BaseEvent):
    depth: int = 0

async def main():
    bus = EventBus(name='RpGuardBus')
    events = []
    async def h(e):
        if e.depth < 3:
            events.append(bus.dispatch(R(depth=e.depth + 1)))
    bus.on('R', h)
    root = bus.dispatch(R())
    try:
        await asyncio.wait_for(bus.wait_until_idle(), 3)
        hung = False
    except asyncio.TimeoutError:
        hung = True
    st = [e.event_status for e in [root] + events]
    print('wait_until_idle hung', hung, 'statuses', st)
    await bus.stop(timeout=0)
    return 1 if hung or any(s != 'completed' for s in st) else 0

sys.exit(asyncio.run(asyncio.wait_for(main(), 30)))
