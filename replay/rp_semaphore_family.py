"""C20 replay family: the real retry(semaphore_limit=L) driven through a bounded family of contention scenarios (limit, lax or not,
how the holders end: return / raise / cancelled / acquisition timeout), then a black-box capacity probe after quiescence:
exactly L fresh callers may run at once. Exit 1 (and print the witness) on the first disagreement."""
import asyncio, itertools, logging, sys
import bubus.helpers as H
logging.disable(logging.CRITICAL)
counter = itertools.count()

async def scenario(L, lax, endings, waiter_timeout_short):
    name = 'rp_sem_%d' % next(counter)
    running = {'now': 0, 'max': 0, 'lax_entries': 0}
    gate = asyncio.Event()
    def deco(**kw):
        return H.retry(retries=0, timeout=5, semaphore_limit=L, semaphore_name=name, semaphore_lax=lax, **kw)
    async def body(mode, hold):
        running['now'] += 1; running['max'] = max(running['max'], running['now'])
        try:
            await asyncio.sleep(hold)
            if mode == 'raise': raise ValueError('boom')
            return 'ok'
        finally:
            running['now'] -= 1
    holders = []
    for mode in endings:
        fn = deco(semaphore_timeout=2.0)(lambda m=mode: body(m, 0.15))
        holders.append(asyncio.ensure_future(fn()))
    await asyncio.sleep(0.02)
    # a waiter whose acquisition times out (short) or succeeds later (long)
    wfn = deco(semaphore_timeout=0.05 if waiter_timeout_short else 2.0)(lambda: body('return', 0.01))
    waiter = asyncio.ensure_future(wfn())
    await asyncio.sleep(0.03)
    for h, mode in zip(holders, endings):
        if mode == 'cancel':
            h.cancel()
    res = await asyncio.gather(*holders, waiter, return_exceptions=True)
    wres = res[-1]
    problems = []
    over = len(endings) >= L and waiter_timeout_short and lax       # the documented case in which the limit may be exceeded
    if running['max'] > L and not over:
        problems.append('max concurrent bodies %d > limit %d' % (running['max'], L))
    if len(endings) >= L and 'cancel' not in endings and waiter_timeout_short and not lax and not isinstance(wres, TimeoutError):
        problems.append('non-lax acquisition timeout did not raise TimeoutError: %r' % (wres,))
    # capacity probe after quiescence: L callers enter at once, the (L+1)st waits
    running['max'] = 0
    probes = [asyncio.ensure_future(deco(semaphore_timeout=2.0)(lambda: body('return', 0.05))()) for _ in range(L + 1)]
    await asyncio.gather(*probes, return_exceptions=True)
    if running['max'] != L:
        problems.append('capacity after quiescence is %d, limit %d (slots leaked or over-released)' % (running['max'], L))
    return problems

async def main():
    n = 0
    for L in (1, 2):
        for lax in (True, False):
            for endings in itertools.product(('return', 'raise', 'cancel'), repeat=L):
                for short in (True, False):
                    n += 1
                    p = await asyncio.wait_for(scenario(L, lax, list(endings), short), 20)
                    if p:
                        print('C20 witness: limit=%d lax=%s holders=%s waiter_acquisition_timeout_short=%s -> %s' % (L, lax, endings, short, p))
                        return 1
    print('C20 family: %d scenarios, capacity and limit respected' % n)
    return 0

sys.exit(asyncio.run(main()))
