"""C01 replay: every handler runs at most once per event, however the event reaches the bus again - re-dispatched after completion,
or re-dispatched by a later handler while still in flight - and whatever the first run ended with (value, None, error).
Exit 1 = a handler was invoked twice for one event."""
import asyncio, sys, logging
from bubus import EventBus, BaseEvent
logging.disable(logging.CRITICAL)

class RE(BaseEvent): pass

async def case(kind, when):
    bus = EventBus(name='RpRerun_%s_%s' % (kind, when))
    runs = {'first': 0, 'second': 0}
    async def first(e):
        runs['first'] += 1
        if kind == 'error': raise ValueError('first run fails')
        return None if kind == 'none' else 'ok'
    async def second(e):
        runs['second'] += 1
        if when == 'inflight' and runs['second'] == 1:
            bus.dispatch(e)                      # the same object, while it is still being processed
        return 's'
    bus.on(RE, first); bus.on(RE, second)
    e = bus.dispatch(RE())
    await asyncio.wait_for(e.event_completed_signal.wait(), 5)
    if when == 'after':
        try:
            bus.dispatch(e)
        except Exception as x:
            print('  second dispatch rejected:', type(x).__name__)
    for _ in range(3):
        await bus.wait_until_idle()
    await bus.stop(timeout=0)
    return ['%s/%s: handler %s ran %d times' % (kind, when, k, v) for k, v in runs.items() if v != 1]

async def main():
    bad = []
    for kind in ('value', 'none', 'error'):
        for when in ('after', 'inflight'):
            bad += await case(kind, when)
    print('violations', bad)
    return 1 if bad else 0

sys.exit(asyncio.run(asyncio.wait_for(main(), 60)))
