"""C16 replay (finding G3): after stop() returned, no handler of that bus may start - not even through another bus's awaiting handler."""
import asyncio, sys
from bubus import EventBus, BaseEvent

class A(BaseEvent): pass
class P(BaseEvent): pass
class K(BaseEvent): pass

async def main():
    a, b = EventBus(name='RpG3A'), EventBus(name='RpG3B')
    started_after_stop = []
    stopped = {'v': False}
    async def slow(e):
        await asyncio.sleep(0.05)
    async def ha(e):
        if stopped['v']:
            started_after_stop.append(e.event_type)
    a.on('P', slow); a.on('A', ha)
    a.dispatch(P())                    # keeps A busy
    await asyncio.sleep(0.01)
    a.dispatch(A())                    # backlog on A
    await a.stop(timeout=0)
    stopped['v'] = True
    async def hb(e):
        await b.dispatch(K())          # in-handler await drains every bus's queue inline
    b.on('P', hb); b.on('K', lambda e: None)
    await b.dispatch(P())
    await asyncio.sleep(0.1)
    print('handlers of the stopped bus started after stop():', started_after_stop)
    await b.stop(timeout=0)
    return 1 if started_after_stop else 0

sys.exit(asyncio.run(asyncio.wait_for(main(), 30)))
