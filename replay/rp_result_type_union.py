"""C12 replay: a declared result type that is not a class (int | None, Optional[str], Literal[...]) must still accept conforming values."""
import asyncio, sys
from typing import Literal, Optional
from bubus import EventBus, BaseEvent

class U(BaseEvent[int | None]): pass
class O(BaseEvent[Optional[str]]): pass
class L(BaseEvent[Literal['a', 'b']]): pass

async def main():
    bus = EventBus(name='RpTypeBus')
    bus.on('U', lambda e: 5)
    bus.on('O', lambda e: 'x')
    bus.on('L', lambda e: 'a')
    bad = []
    for cls in (U, O, L):
        e = await bus.dispatch(cls())
        r = list(e.event_results.values())[0]
        print(cls.__name__, r.status, repr(r.result), type(r.error).__name__ if r.error else None)
        if r.status != 'completed':
            bad.append(cls.__name__)
    # a non-conforming value must still end as an error without a value
    class N(BaseEvent[int | None]): pass
    bus.on('N', lambda e: 'not-an-int')
    e = await bus.dispatch(N())
    r = list(e.event_results.values())[0]
    print('N', r.status, repr(r.result), type(r.error).__name__ if r.error else None)
    if not (r.status == 'error' and r.result is None and r.error is not None):
        bad.append('N')
    await bus.stop(timeout=0)
    return 1 if bad else 0

sys.exit(asyncio.run(asyncio.wait_for(main(), 30)))
