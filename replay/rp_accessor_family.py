"""C12 replay family: the result accessors against an independent reference computed from event.event_results.

For result mixtures (value / None / raised error / dict / list) x raise_if_any x raise_if_none x include filters: event_results_filtered,
event_results_by_handler_id, event_results_list and event_result must be the in-order views of the included recorded results, raise the
FIRST recorded error (the same object) iff raise_if_any, and ValueError iff raise_if_none and nothing is included.
Exit 1 = some accessor disagrees with the reference (the first disagreements are printed)."""
import asyncio, itertools, sys
from bubus import EventBus, BaseEvent

class AE(BaseEvent): pass

KINDS = ['val', 'none', 'err', 'val2']

def make_handler(kind, i):
    async def h(e):
        if kind == 'val': return 'v%d' % i
        if kind == 'val2': return i + 100
        if kind == 'none': return None
        raise KeyError('boom%d' % i)
    h.__name__ = 'h%d_%s' % (i, kind)
    return h

INCLUDES = {
    'default': None,
    'all': lambda r: True,
    'only_none': lambda r: r.result is None and r.error is None,
    'errors_too': lambda r: r.status in ('completed', 'error'),
}

def reference(ev, include, raise_if_any, raise_if_none):
    results = list(ev.event_results.values())
    errors = [r for r in results if r.error is not None or isinstance(r.result, BaseException)]
    if raise_if_any and errors:
        return ('raise', errors[0].error if errors[0].error is not None else errors[0].result)
    inc = [r for r in results if include(r)]
    if raise_if_none and not inc:
        return ('valueerror', None)
    return ('ok', inc)

async def call(coro):
    try:
        return ('ok', await coro)
    except BaseException as e:   # noqa
        return ('raise', e)

async def main():
    bad = []
    n = 0
    for combo in itertools.product(KINDS, repeat=3):
        if combo.count('err') > 2:
            continue
        bus = EventBus(name='RpAcc%d' % n)
        n += 1
        for i, k in enumerate(combo):
            bus.on(AE, make_handler(k, i))
        ev = bus.dispatch(AE())
        await asyncio.wait_for(ev.event_completed_signal.wait(), 5)
        from bubus.models import BaseEvent as BE
        default_inc = BE._event_result_is_truthy if hasattr(BE, '_event_result_is_truthy') else None
        for iname, inc in INCLUDES.items():
            for ria, rin in itertools.product([True, False], repeat=2):
                kw = dict(raise_if_any=ria, raise_if_none=rin, timeout=2)
                if inc is not None:
                    kw['include'] = inc
                ref_inc = inc if inc is not None else (lambda r: r.status == 'completed' and r.result is not None and not isinstance(r.result, (BaseException, BaseEvent)) and r.error is None)
                want = reference(ev, ref_inc, ria, rin)
                got_f = await call(ev.event_results_filtered(**kw))
                got_i = await call(ev.event_results_by_handler_id(**kw))
                got_l = await call(ev.event_results_list(**kw))
                got_1 = await call(ev.event_result(**kw))
                tag = (combo, iname, ria, rin)
                for name, got in (('filtered', got_f), ('by_id', got_i), ('list', got_l), ('first', got_1)):
                    if want[0] == 'raise':
                        if got[0] != 'raise' or got[1] is not want[1]:
                            bad.append((tag, name, 'expected the first recorded error object %r, got %r' % (want[1], got)))
                    elif want[0] == 'valueerror':
                        if got[0] != 'raise' or not isinstance(got[1], ValueError):
                            bad.append((tag, name, 'expected ValueError, got %r' % (got,)))
                    else:
                        inc_rs = want[1]
                        if got[0] != 'ok':
                            bad.append((tag, name, 'unexpected raise %r' % (got[1],)))
                        elif name == 'filtered' and (list(got[1].keys()) != [r.handler_id for r in inc_rs] or any(got[1][r.handler_id] is not r for r in inc_rs)):
                            bad.append((tag, name, 'view %r != included %r' % (list(got[1].keys()), [r.handler_id for r in inc_rs])))
                        elif name == 'by_id' and (list(got[1].keys()) != [r.handler_id for r in inc_rs] or any(got[1][r.handler_id] is not r.result for r in inc_rs)):
                            bad.append((tag, name, 'by_id %r' % (got[1],)))
                        elif name == 'list' and (len(got[1]) != len(inc_rs) or any(a is not r.result for a, r in zip(got[1], inc_rs))):
                            bad.append((tag, name, 'list %r != %r' % (got[1], [r.result for r in inc_rs])))
                        elif name == 'first' and (got[1] is not (inc_rs[0].result if inc_rs else None)):
                            bad.append((tag, name, 'first %r != %r' % (got[1], inc_rs[0].result if inc_rs else None)))
        await bus.stop(timeout=0)
    # flat views: dict / list valued results merged in handler order
    FLAT = [({'a': 1}, {'b': 2}, 'x'), ({'a': 1}, {'a': 3, 'c': 4}, None), ({}, {'k': 0}, {'z': 9}), ([1, 2], [3], 'x'), ([], [None, 5], [6]), ({'a': 1}, [7], {'b': 2})]
    for fi, vals in enumerate(FLAT):
        bus = EventBus(name='RpFlat%d' % fi)
        for i, v in enumerate(vals):
            def mk(v=v, i=i):
                async def h(e): return v
                h.__name__ = 'f%d' % i
                return h
            bus.on(AE, mk())
        ev = bus.dispatch(AE())
        await asyncio.wait_for(ev.event_completed_signal.wait(), 5)
        results = list(ev.event_results.values())
        dicts = [r.result for r in results if isinstance(r.result, dict) and r.result is not None and r.error is None and r.result != {} or (isinstance(r.result, dict) and r.error is None)]
        dicts = [r.result for r in results if isinstance(r.result, dict) and r.error is None and r.result]     # the default filter drops empty dicts (falsy is fine) - they add nothing
        lists = [r.result for r in results if isinstance(r.result, list) and r.error is None]
        for conflicts in (True, False):
            want = {}
            clash = False
            for d in dicts:
                if set(want) & set(d):
                    clash = True
                want.update(d)
            got = await call(ev.event_results_flat_dict(raise_if_conflicts=conflicts, raise_if_none=False, timeout=2))
            if clash and conflicts:
                if got[0] != 'raise' or not isinstance(got[1], ValueError):
                    bad.append((vals, 'flat_dict', 'expected ValueError on conflicting keys, got %r' % (got,)))
            elif got[0] != 'ok' or got[1] != want:
                bad.append((vals, 'flat_dict', '%r != %r' % (got, want)))
        wantl = [x for l in lists for x in l]
        gotl = await call(ev.event_results_flat_list(raise_if_none=False, timeout=2))
        if gotl[0] != 'ok' or len(gotl[1]) != len(wantl) or any(a is not b for a, b in zip(gotl[1], wantl)):
            bad.append((vals, 'flat_list', '%r != %r' % (gotl, wantl)))
        await bus.stop(timeout=0)
        n += 1
    print('cases', n, 'disagreements', len(bad))
    for b in bad[:6]:
        print('  ', b)
    return 1 if bad else 0

import logging
logging.disable(logging.CRITICAL)
sys.exit(asyncio.run(asyncio.wait_for(main(), 120)))
