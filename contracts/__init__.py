"""Sidecar contracts for the real functions of /repo/bubus (no edit of /repo)."""
from pyvc import models
from pyvc.spec import Spec


def build() -> Spec:
    spec = Spec()
    spec.type_invariants = {}
    models.install(spec)
    from . import axioms_asyncio, axioms_pydantic, helpers_c, models_c, schema, service_c
    axioms_asyncio.install(spec)
    schema.install(spec)
    axioms_pydantic.install(spec)
    helpers_c.install(spec)
    models_c.install(spec)
    service_c.install(spec)
    models_c.install_late(spec)
    from . import views_c
    views_c.install(spec)
    return spec
