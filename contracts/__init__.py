"""Sidecar contracts for the real functions of /repo/bubus (no edit of /repo)."""
from pyvc import models
from pyvc.spec import Spec


def build() -> Spec:
    spec = Spec()
    models.install(spec)
    from . import helpers_c
    helpers_c.install(spec)
    return spec
