"""Trusted axiom A9 (pydantic): validation returns a conforming value or raises; it is a deterministic function of (type, value)."""
import z3

from pyvc.core import RaiseSig
from pyvc.smt import NONE, Ref
from pyvc.spec import Spec
from pyvc.values import ANY, PY, V, coerce, fresh, mk_bool, mk_none, mk_str, obj

validates_ok = z3.Function('validates_ok', Ref, Ref, z3.BoolSort())    # (declared type, value) -> pydantic accepts it
validated = z3.Function('validated', Ref, Ref, Ref)                     # the (possibly coerced) conforming value


def _validate(ex, T: V, v: V, origin: str) -> V:
    ok = validates_ok(T.term, v.term)
    if ex.branch(ok, 'pydantic_accepts'):
        return V(ANY, validated(T.term, v.term))
    raise RaiseSig(ex.fresh_exc('Exception', base='validation_error'), origin)


def model_validate(ex, n, awaited, recv):
    v = coerce(ex.eval(n.args[0]), ANY)
    return _validate(ex, recv, v, 'model_validate')


def type_adapter_new(ex, n, awaited, recv=None):
    T = coerce(ex.eval(n.args[0]), ANY)
    if ex.choice([None, None], 'TypeAdapter(T) constructible?') == 1:
        # no schema can be built for T: then pydantic accepts no value for T at all
        v = z3.Const('v!schema', Ref)
        ex.assume(z3.ForAll([v], z3.Not(validates_ok(T.term, v)), patterns=[validates_ok(T.term, v)]))
        raise RaiseSig(ex.fresh_exc('Exception', base='schema_error'), 'TypeAdapter')
    return V(PY, py=('typeadapter', T))


def validate_python(ex, n, awaited, recv):
    v = coerce(ex.eval(n.args[0]), ANY)
    return _validate(ex, recv.py[1], v, 'validate_python')


def sf_validates_ok(ex, T, v):
    return mk_bool(validates_ok(coerce(T, ANY).term, coerce(v, ANY).term))


def sf_validated(ex, T, v):
    return V(ANY, validated(coerce(T, ANY).term, coerce(v, ANY).term))


def install(spec: Spec):
    spec.methods[('*', 'model_validate')] = model_validate
    spec.builtins['TypeAdapter.__new__'] = type_adapter_new
    spec.builtins['py:typeadapter.validate_python'] = validate_python
    spec.specfuns['validates_ok'] = sf_validates_ok
    spec.specfuns['validated'] = sf_validated
