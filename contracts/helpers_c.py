"""Contracts for bubus/helpers.py (C19, C20)."""
from pyvc.spec import RaisesClause, Spec

F = 'bubus/helpers.py'


def install(spec: Spec):
    spec.field('__class__', 'any')
    spec.field('__name__', 'str')
    spec.injective_fstrings.add('{}.{}')

    spec.fn('helpers._calculate_semaphore_timeout', file=F, qual='_calculate_semaphore_timeout',
            params={'semaphore_timeout': 'opt[real]', 'timeout': 'real', 'semaphore_limit': 'int'}, returns='real',
            ensures=[
                ('spec_none', 'implies(semaphore_timeout is None, result == max(timeout, timeout * (semaphore_limit - 1)))', ['C20']),
                ('spec_zero', 'implies(semaphore_timeout is not None and semaphore_timeout == 0, result == 0.01)', ['C20']),
                ('spec_given', 'implies(semaphore_timeout is not None and semaphore_timeout != 0, result == semaphore_timeout)', ['C20']),
            ])

    spec.fn('helpers._get_semaphore_key', file=F, qual='_get_semaphore_key',
            params={'func_name': 'str', 'semaphore_name': 'opt[str]', 'semaphore_scope': 'str', 'args': 'list[any]'}, returns='str',
            ensures=[
                ('global', "implies(semaphore_scope == 'global' or semaphore_scope == 'multiprocess', result == (semaphore_name or func_name))", ['C20']),
                ('class', "implies(semaphore_scope == 'class' and len(args) > 0, result == fmt2(args[0].__class__.__name__, (semaphore_name or func_name)))", ['C20']),
                ('self', "implies(semaphore_scope == 'self' and len(args) > 0, result == fmt2(id(args[0]), (semaphore_name or func_name)))", ['C20']),
                ('fallback', "implies(len(args) == 0, result == (semaphore_name or func_name))", ['C20']),
            ])
