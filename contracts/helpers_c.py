"""Contracts for bubus/helpers.py (C19, C20)."""
from pyvc.spec import RaisesClause, Spec

F = 'bubus/helpers.py'


def install(spec: Spec):
    spec.field('__class__', 'any')
    spec.field('__name__', 'str')
    spec.injective_fstrings.add('{}.{}')

    spec.fn('helpers._calculate_semaphore_timeout', file=F, qual='_calculate_semaphore_timeout',
            params={'semaphore_timeout': 'opt[real]', 'timeout': 'real', 'semaphore_limit': 'int'}, returns='real',
            ensures=[
                ('spec_none', 'implies(semaphore_timeout is None, result == max(timeout, timeout * (semaphore_limit - 1)))', ['C20']),
                ('spec_zero', 'implies(semaphore_timeout is not None and semaphore_timeout == 0, result == 0.01)', ['C20']),
                ('spec_given', 'implies(semaphore_timeout is not None and semaphore_timeout != 0, result == semaphore_timeout)', ['C20']),
            ])

    spec.fn('helpers._get_semaphore_key', file=F, qual='_get_semaphore_key',
            params={'func_name': 'str', 'semaphore_name': 'opt[str]', 'semaphore_scope': 'str', 'args': 'list[any]'}, returns='str',
            ensures=[
                ('global', "implies(semaphore_scope == 'global' or semaphore_scope == 'multiprocess', result == (semaphore_name or func_name))", ['C20']),
                ('class', "implies(semaphore_scope == 'class' and len(args) > 0, result == fmt2(args[0].__class__.__name__, (semaphore_name or func_name)))", ['C20']),
                ('self', "implies(semaphore_scope == 'self' and len(args) > 0, result == fmt2(id(args[0]), (semaphore_name or func_name)))", ['C20']),
                ('fallback', "implies(len(args) == 0, result == (semaphore_name or func_name))", ['C20']),
            ])

    # ------------------------------------------------------------------ C19: _execute_with_retries
    from pyvc import models
    from pyvc.values import mk_int, V, REAL, coerce
    import z3

    spec.ghosts['calls'] = models.parse_ty('int')          # number of times the wrapped function was entered
    spec.ghosts['sleeps'] = models.parse_ty('list[real]')  # arguments of asyncio.sleep between attempts, in order
    spec.ghosts['last_exc'] = models.parse_ty('any')       # exception that ended the most recent attempt
    spec.ghosts['last_result'] = models.parse_ty('any')    # value returned by the most recent successful attempt

    def not_after_cancel(ex, what):
        # cancellation of the caller is never swallowed or retried: once a CancelledError was delivered to this task,
        # no further attempt and no further backoff sleep may start
        ex.oblige('callsite:%s/requires' % what, 'not_after_cancel', z3.BoolVal(not ex.st.flags.get('cancelled')), ['C19'])

    def func_pre(ex):
        not_after_cancel(ex, 'func')
        ex.ghost_set('calls', mk_int(ex.ghost('calls').term + 1))

    def func_post(ex, res):
        ex.ghost_set('last_result', res)

    def func_raise(ex, exc):
        ex.ghost_set('last_exc', exc)

    def sleep_model(ex, n, awaited, recv=None):
        not_after_cancel(ex, 'asyncio.sleep')
        t = coerce(ex.eval(n.args[0]), REAL)
        sl = ex.ghost('sleeps')
        ex.ghost_set('sleeps', ex.list_append(sl, t))
        ex.suspend('asyncio.sleep')
        return models.mk_none()

    spec.fn('helpers._execute_with_retries', file=F, qual='_execute_with_retries', is_async=True,
            params={'func': 'py', 'args': 'py', 'kwargs': 'py', 'retries': 'int', 'timeout': 'real', 'wait': 'real',
                    'backoff_factor': 'real', 'retry_on': 'any', 'start_time': 'real', 'sem_start': 'real', 'semaphore_limit': 'opt[int]'},
            returns='any',
            requires=[('retries_nonneg', 'retries >= 0', ['C19'])],
            ghost_modifies=['calls', 'sleeps', 'last_exc', 'last_result'],
            callsites={
                'func(*args, **kwargs)': {'model': models.user_call('func', pre=func_pre, post=func_post, on_raise=func_raise),
                                          'ghost_writes': ['calls', 'last_exc', 'last_result'], 'suspends': True},
                'asyncio.sleep': {'model': sleep_model, 'ghost_writes': ['sleeps'], 'suspends': True},
            },
            loops={0: {'inv': [
                ('calls', 'calls == old(calls) + loop_i', ['C19']),
                ('nsleeps', 'len(sleeps) == len(old(sleeps)) + loop_i', ['C19']),
                ('bound', 'loop_i <= retries', ['C19']),
                ('old_sleeps_kept', 'forall(lambda k: implies(0 <= k and k < len(old(sleeps)), sleeps[k] == old(sleeps)[k]))', ['C19']),
                ('waits', 'forall(lambda k: implies(0 <= k and k < loop_i, sleeps[len(old(sleeps)) + k] == wait * backoff_factor ** k))', ['C19']),
            ]}},
            ensures=[
                ('at_most', 'calls - old(calls) <= retries + 1 and calls - old(calls) >= 1', ['C19']),
                ('first_success', 'result is last_result', ['C19']),
                ('no_sleep_after_success', 'len(sleeps) == len(old(sleeps)) + (calls - old(calls)) - 1', ['C19']),
                ('waits', 'forall(lambda k: implies(0 <= k and k < calls - old(calls) - 1, sleeps[len(old(sleeps)) + k] == wait * backoff_factor ** k))', ['C19']),
            ],
            raises=[
                RaisesClause('Exception', label='failure', tags=['C19'], ensures=[
                    ('last_error', 'raised is last_exc', ['C19']),
                    ('at_most', 'calls - old(calls) <= retries + 1 and calls - old(calls) >= 1', ['C19']),
                    ('exhausted_or_unlisted', 'calls - old(calls) == retries + 1 or (retry_on is not None and not isinstance(raised, retry_on))', ['C19']),
                    ('no_sleep_after_last', 'len(sleeps) == len(old(sleeps)) + (calls - old(calls)) - 1', ['C19']),
                    ('waits', 'forall(lambda k: implies(0 <= k and k < calls - old(calls) - 1, sleeps[len(old(sleeps)) + k] == wait * backoff_factor ** k))', ['C19']),
                ]),
                RaisesClause('CancelledError', label='cancelled', tags=['C19'], ensures=[
                    ('at_most', 'calls - old(calls) <= retries + 1', ['C19']),
                ]),
            ])
