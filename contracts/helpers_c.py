"""Contracts for bubus/helpers.py (C19, C20)."""
from pyvc.spec import RaisesClause, Spec

F = 'bubus/helpers.py'


def install(spec: Spec):
    spec.field('__class__', 'any')
    spec.field('__name__', 'str')
    spec.injective_fstrings.add('{}.{}')
    from pyvc import smt as _smt
    _smt.INJECTIVE_TEMPLATES['{}.{}'] = 2

    spec.fn('helpers._calculate_semaphore_timeout', file=F, qual='_calculate_semaphore_timeout',
            params={'semaphore_timeout': 'opt[real]', 'timeout': 'real', 'semaphore_limit': 'int'}, returns='real',
            ensures=[
                ('spec_none', 'implies(semaphore_timeout is None, result == max(timeout, timeout * (semaphore_limit - 1)))', ['C20']),
                ('spec_zero', 'implies(semaphore_timeout is not None and semaphore_timeout == 0, result == 0.01)', ['C20']),
                ('spec_given', 'implies(semaphore_timeout is not None and semaphore_timeout != 0, result == semaphore_timeout)', ['C20']),
            ])

    spec.fn('helpers._get_semaphore_key', file=F, qual='_get_semaphore_key',
            params={'func_name': 'str', 'semaphore_name': 'opt[str]', 'semaphore_scope': 'str', 'args': 'list[any]'}, returns='str',
            ensures=[
                ('global', "implies(semaphore_scope == 'global' or semaphore_scope == 'multiprocess', result == (semaphore_name or func_name))", ['C20']),
                ('class', "implies(semaphore_scope == 'class' and len(args) > 0, result == fmt2(args[0].__class__.__name__, (semaphore_name or func_name)))", ['C20']),
                ('self', "implies(semaphore_scope == 'self' and len(args) > 0, result == fmt2(id(args[0]), (semaphore_name or func_name)))", ['C20']),
                ('fallback', "implies(len(args) == 0, result == (semaphore_name or func_name))", ['C20']),
            ])

    # ------------------------------------------------------------------ C19: _execute_with_retries
    from pyvc import models
    from pyvc.values import mk_int, V, REAL, coerce
    import z3

    spec.ghosts['calls'] = models.parse_ty('int')          # number of times the wrapped function was entered
    spec.ghosts['sleeps'] = models.parse_ty('list[real]')  # arguments of asyncio.sleep between attempts, in order
    spec.ghosts['last_exc'] = models.parse_ty('any')       # exception that ended the most recent attempt
    spec.ghosts['last_result'] = models.parse_ty('any')    # value returned by the most recent successful attempt

    def not_after_cancel(ex, what):
        # cancellation of the caller is never swallowed or retried: once a CancelledError was delivered to this task,
        # no further attempt and no further backoff sleep may start
        ex.oblige('callsite:%s/requires' % what, 'not_after_cancel', z3.BoolVal(not ex.st.flags.get('cancelled')), ['C19'])

    def func_pre(ex):
        not_after_cancel(ex, 'func')
        ex.ghost_set('calls', mk_int(ex.ghost('calls').term + 1))

    def func_post(ex, res):
        ex.ghost_set('last_result', res)

    def func_raise(ex, exc):
        ex.ghost_set('last_exc', exc)

    def sleep_model(ex, n, awaited, recv=None):
        not_after_cancel(ex, 'asyncio.sleep')
        t = coerce(ex.eval(n.args[0]), REAL)
        sl = ex.ghost('sleeps')
        ex.ghost_set('sleeps', ex.list_append(sl, t))
        ex.suspend('asyncio.sleep')
        return models.mk_none()

    spec.fn('helpers._execute_with_retries', file=F, qual='_execute_with_retries', is_async=True, interference='helpers',
            params={'func': 'any', 'args': 'any', 'kwargs': 'any', 'retries': 'int', 'timeout': 'real', 'wait': 'real',
                    'backoff_factor': 'real', 'retry_on': 'any', 'start_time': 'real', 'sem_start': 'real', 'semaphore_limit': 'opt[int]'},
            returns='any',
            requires=[('retries_nonneg', 'retries >= 0', ['C19'])],
            ghost_modifies=['calls', 'sleeps', 'last_exc', 'last_result'],
            callsites={
                'func(*args, **kwargs)': {'model': models.user_call('func', pre=func_pre, post=func_post, on_raise=func_raise),
                                          'ghost_writes': ['calls', 'last_exc', 'last_result'], 'suspends': True},
                'asyncio.sleep': {'model': sleep_model, 'ghost_writes': ['sleeps'], 'suspends': True},
            },
            loops={0: {'inv': [
                ('calls', 'calls == old(calls) + loop_i', ['C19']),
                ('nsleeps', 'len(sleeps) == len(old(sleeps)) + loop_i', ['C19']),
                ('bound', 'loop_i <= retries', ['C19']),
                ('old_sleeps_kept', 'forall(lambda k: implies(0 <= k and k < len(old(sleeps)), sleeps[k] == old(sleeps)[k]))', ['C19']),
                ('waits', 'forall(lambda k: implies(0 <= k and k < loop_i, sleeps[len(old(sleeps)) + k] == wait * backoff_factor ** k))', ['C19']),
            ]}},
            ensures=[
                ('at_most', 'calls - old(calls) <= retries + 1 and calls - old(calls) >= 1', ['C19']),
                ('first_success', 'result is last_result', ['C19']),
                ('no_sleep_after_success', 'len(sleeps) == len(old(sleeps)) + (calls - old(calls)) - 1', ['C19']),
                ('waits', 'forall(lambda k: implies(0 <= k and k < calls - old(calls) - 1, sleeps[len(old(sleeps)) + k] == wait * backoff_factor ** k))', ['C19']),
            ],
            raises=[
                RaisesClause('Exception', label='failure', tags=['C19'], ensures=[
                    ('last_error', 'raised is last_exc', ['C19']),
                    ('at_most', 'calls - old(calls) <= retries + 1 and calls - old(calls) >= 1', ['C19']),
                    ('exhausted_or_unlisted', 'calls - old(calls) == retries + 1 or (retry_on is not None and not isinstance(raised, retry_on))', ['C19']),
                    ('no_sleep_after_last', 'len(sleeps) == len(old(sleeps)) + (calls - old(calls)) - 1', ['C19']),
                    ('waits', 'forall(lambda k: implies(0 <= k and k < calls - old(calls) - 1, sleeps[len(old(sleeps)) + k] == wait * backoff_factor ** k))', ['C19']),
                ]),
                RaisesClause('CancelledError', label='cancelled', tags=['C19'], ensures=[
                    ('at_most', 'calls - old(calls) <= retries + 1', ['C19']),
                ]),
            ])

    # ------------------------------------------------------------------ C20: semaphores
    spec.field('g$retry_semaphores', 'dict[str,Semaphore]')
    spec.field('g$active_ops', 'int')
    spec.field('g$last_overload_check', 'real')
    g = spec.globals.setdefault(F, {})
    g['GLOBAL_RETRY_SEMAPHORES'] = ('state', 'g$retry_semaphores')
    g['_active_retry_operations'] = ('state', 'g$active_ops')
    g['_last_overload_check'] = ('state', 'g$last_overload_check')
    g['_overload_check_interval'] = ('const', models.mk_real('5.0'))
    for lock in ('GLOBAL_RETRY_SEMAPHORE_LOCK', 'MULTIPROCESS_SEMAPHORE_LOCK', '_active_operations_lock'):
        g[lock] = ('cm', 'null')
    for fn in ('_get_semaphore_key', '_get_or_create_semaphore', '_calculate_semaphore_timeout', '_acquire_asyncio_semaphore',
               '_acquire_multiprocess_semaphore', '_execute_with_retries', '_track_active_operations',
               '_check_system_overload_if_needed', '_check_system_overload'):
        g[fn] = ('fn', 'helpers.' + fn)

    spec.ghosts['slots_held'] = models.parse_ty('int')   # permits of the decorator's semaphore held by the current call (task-owned)

    spec.fn('helpers._get_or_create_semaphore', file=F, qual='_get_or_create_semaphore',
            params={'sem_key': 'str', 'semaphore_limit': 'int', 'semaphore_scope': 'str'}, returns='Semaphore',
            requires=[('not_multiprocess', "semaphore_scope != 'multiprocess'", ['C20'])],
            modifies=[('g$retry_semaphores', 'MODULE')],
            ensures=[
                ('registered', 'sem_key in GLOBAL_RETRY_SEMAPHORES and GLOBAL_RETRY_SEMAPHORES[sem_key] is result', ['C20']),
                ('same_object_for_same_key', 'implies(sem_key in old(GLOBAL_RETRY_SEMAPHORES), result is old(GLOBAL_RETRY_SEMAPHORES)[sem_key] and result.sem_value == old(result.sem_value))', ['C20']),
                ('created_with_limit', 'implies(sem_key not in old(GLOBAL_RETRY_SEMAPHORES), fresh_object(result) and result.sem_value == semaphore_limit)', ['C20']),
                ('other_keys_untouched', "forall(lambda k: implies(k != sem_key, (k in GLOBAL_RETRY_SEMAPHORES) == (k in old(GLOBAL_RETRY_SEMAPHORES)) and implies(k in GLOBAL_RETRY_SEMAPHORES, GLOBAL_RETRY_SEMAPHORES[k] is old(GLOBAL_RETRY_SEMAPHORES)[k])), 'str')", ['C20']),
            ])

    def acquire_model(ex, n, awaited, recv=None):
        sem = ex.eval(n.func.value)
        def loop_ok(ok):
            # C20 "successive event loops within one process": the registry outlives event loops, asyncio.Semaphore does not (A6)
            ex.oblige('callsite:semaphore.acquire/requires', 'cached_semaphore_usable_in_this_event_loop', ok, ['C20'])
        r = models.sem_acquire(ex, n, awaited, sem) if not awaited else models.sem_acquire_await(ex, sem, check_loop=loop_ok)
        if awaited:
            ex.ghost_set('slots_held', mk_int(ex.ghost('slots_held').term + 1))
        return r

    def release_model(ex, n, awaited, recv=None):
        sem = ex.eval(n.func.value)
        models.sem_release(ex, n, awaited, sem)
        ex.ghost_set('slots_held', mk_int(ex.ghost('slots_held').term - 1))
        return models.mk_none()

    spec.fn('helpers._acquire_asyncio_semaphore', file=F, qual='_acquire_asyncio_semaphore', is_async=True,
            params={'semaphore': 'Semaphore', 'sem_timeout': 'real', 'sem_key': 'str', 'semaphore_lax': 'bool',
                    'semaphore_limit': 'int', 'timeout': 'real', 'sem_start': 'real'}, returns='bool',
            modifies=[('sem_value', '*'), ('sem_loop', '*')], ghost_modifies=['slots_held'], interference='helpers',
            callsites={'semaphore.acquire': {'model': acquire_model, 'writes': ['sem_value', 'sem_loop'], 'ghost_writes': ['slots_held'], 'suspends': True}},
            ensures=[
                ('acquired_iff_true', 'slots_held == old(slots_held) + (1 if result else 0)', ['C20']),
                ('false_only_if_lax', 'implies(not result, semaphore_lax)', ['C20']),
            ],
            raises=[
                RaisesClause('TimeoutError', label='timeout', tags=['C20'], ensures=[
                    ('holds_nothing', 'slots_held == old(slots_held)', ['C20']),
                    ('only_if_not_lax', 'not semaphore_lax', ['C20'])]),
                RaisesClause('CancelledError', label='cancelled', tags=['C20'], ensures=[
                    ('holds_nothing', 'slots_held == old(slots_held)', ['C20'])]),
            ])

    spec.fn('helpers._track_active_operations', file=F, qual='_track_active_operations',
            params={'increment': 'bool'}, returns='NoneType', modifies=[('g$active_ops', 'MODULE')])

    spec.fn('helpers._check_system_overload', file=F, qual='_check_system_overload', trusted=True,
            params={}, returns='tuple[bool,str]',
            notes='diagnostic (psutil); assumed to raise nothing and to write no bus/semaphore state: its body is try/except Exception '
                  'around psutil calls, after `assert psutil is not None` which holds because PSUTIL_AVAILABLE is set only after the import')

    spec.fn('helpers._check_system_overload_if_needed', file=F, qual='_check_system_overload_if_needed',
            params={}, returns='NoneType', modifies=[('g$last_overload_check', 'MODULE')])

    spec.fn('helpers._acquire_multiprocess_semaphore', trusted=True, is_async=True,
            params={'semaphore': 'any', 'sem_timeout': 'real', 'sem_key': 'str', 'semaphore_lax': 'bool', 'semaphore_limit': 'int', 'timeout': 'real'},
            returns='tuple[bool,any]', requires=[('out_of_reach', 'False', ['C20'])],
            notes="semaphore_scope='multiprocess' (file locks, threads) is out of the engine's reach: never entered under the wrapper's precondition")

    spec.interference['helpers'] = __import__('pyvc.spec', fromlist=['Interference']).Interference(
        'helpers', havoc=['sem_value', 'sem_loop', 'g$retry_semaphores', 'g$active_ops', 'g$last_overload_check'])

    def body_pre(ex, n):
        # the wrapped function is entered only holding a slot, or in the documented lax-timeout case, or without a limit
        lim = ex.lookup('semaphore_limit')
        lax = ex.lookup('semaphore_lax')
        held = ex.ghost('slots_held').term == ex.entry['ghost']['slots_held'].term + 1
        ex.oblige('callsite:_execute_with_retries/requires', 'body_only_with_slot_or_lax',
                  z3.Or(lim.term == models.NONE, held, lax.term), ['C20'])

    spec.fn('helpers.retry.wrapper', file=F, qual='retry.<locals>.decorator.<locals>.wrapper', is_async=True,
            params={'args': 'list[any]', 'kwargs': 'any'},
            free={'func': 'any', 'wait': 'real', 'retries': 'int', 'timeout': 'real', 'retry_on': 'any', 'backoff_factor': 'real',
                  'semaphore_limit': 'opt[int]', 'semaphore_name': 'opt[str]', 'semaphore_lax': 'bool', 'semaphore_scope': 'str',
                  'semaphore_timeout': 'opt[real]'},
            returns='any', interference='helpers',
            requires=[('retries_nonneg', 'retries >= 0', ['C19']), ('not_multiprocess', "semaphore_scope != 'multiprocess'", ['C20'])],
            modifies=[('sem_value', '*'), ('sem_loop', '*'), ('g$retry_semaphores', '*'), ('g$active_ops', '*'), ('g$last_overload_check', '*')],
            ghost_modifies=['calls', 'sleeps', 'last_exc', 'last_result', 'slots_held'],
            callsites={'semaphore.release': {'model': release_model, 'writes': ['sem_value'], 'ghost_writes': ['slots_held']},
                       '_execute_with_retries': {'pre': body_pre}},
            exits_ensure=[('released_exactly_once_iff_acquired', 'slots_held == old(slots_held)', ['C20'])],
            ensures=[('calls_made', 'calls >= old(calls) + 1', ['C19'])],
            raises=[
                RaisesClause('Exception', label='failure', tags=['C19', 'C20']),
                RaisesClause('TimeoutError', label='acquire_timeout', tags=['C20'], origin='call:helpers._acquire_asyncio_semaphore',
                             ensures=[('function_not_run', 'calls == old(calls) and not semaphore_lax', ['C20'])]),
                RaisesClause('CancelledError', label='cancelled', tags=['C19', 'C20']),
            ])
