"""Contracts for bubus/models.py (BaseEvent / EventResult)."""
import z3

from pyvc import models, smt
from pyvc.smt import NONE, Ref
from pyvc.spec import RaisesClause, Spec
from pyvc.values import V, fresh_name, obj, parse_ty, Ty

M = 'bubus/models.py'

# the specification of the derived properties, written in the contract language over the real fields
ALL_TERMINAL = "all(r.status in ('completed', 'error') for r in self.event_results.values())"
COMPLETED = ALL_TERMINAL + " and (any(r.completed_at is not None for r in self.event_results.values()) or self.event_processed_at is not None)"
STARTED = "any(r.started_at is not None for r in self.event_results.values()) or self.event_processed_at is not None"


def _opt_datetime_term(expr):
    def term(ex, selfv):
        c = ex.spec_bool(expr, {'self': selfv}, entry=ex.entry)
        k = z3.Int(fresh_name('dt'))
        return V(Ty('obj', ('opt',), cls='datetime'), z3.If(c, Ref.obj(k), NONE))
    return term


def install(spec: Spec):
    P = spec.properties
    spec.fn('BaseEvent.event_completed_at', file=M, qual='BaseEvent.event_completed_at', params={'self': 'BaseEvent'}, returns='opt[datetime]',
            spec_term=_opt_datetime_term(COMPLETED),
            ensures=[('spec', '(result is not None) == (' + COMPLETED + ')', ['C03', 'C08', 'C13'])])
    P[('BaseEvent', 'event_completed_at')] = 'BaseEvent.event_completed_at'
    spec.fn('BaseEvent.event_started_at', file=M, qual='BaseEvent.event_started_at', params={'self': 'BaseEvent'}, returns='opt[datetime]',
            spec_term=_opt_datetime_term(STARTED),
            ensures=[('spec', '(result is not None) == (' + STARTED + ')', ['C03', 'C08', 'C13'])])
    P[('BaseEvent', 'event_started_at')] = 'BaseEvent.event_started_at'
    spec.fn('BaseEvent.event_status', file=M, qual='BaseEvent.event_status', params={'self': 'BaseEvent'}, returns='str',
            spec_term="'completed' if self.event_completed_at else 'started' if self.event_started_at else 'pending'",
            ensures=[('spec', "result == ('completed' if (" + COMPLETED + ") else 'started' if (" + STARTED + ") else 'pending')", ['C03', 'C08', 'C13'])])
    P[('BaseEvent', 'event_status')] = 'BaseEvent.event_status'
