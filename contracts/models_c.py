"""Contracts for bubus/models.py (BaseEvent / EventResult)."""
import z3

from pyvc import models, smt
from pyvc.smt import NONE, Ref
from pyvc.spec import Clause, RaisesClause, Spec

Clause_of = Clause.of
from pyvc.values import mk_int as mk_int_
from pyvc.values import V, fresh_name, obj, parse_ty, Ty

M = 'bubus/models.py'

# the specification of the derived properties, written in the contract language over the real fields
ALL_TERMINAL = "all(r.status in ('completed', 'error') for r in self.event_results.values())"
COMPLETED = ALL_TERMINAL + " and (any(r.completed_at is not None for r in self.event_results.values()) or self.event_processed_at is not None)"
STARTED = "any(r.started_at is not None for r in self.event_results.values()) or self.event_processed_at is not None"


def _opt_datetime_term(expr, kind):
    stamp = z3.Function('datetime_of_' + kind, Ref, z3.IntSort())

    def term(ex, selfv):
        # only whether the timestamp is None is specified; its value is some datetime object (a function of the event,
        # so that two evaluations of the same view give syntactically equal terms - values are never compared by the code under contract)
        c = ex.spec_bool(expr, {'self': selfv}, entry=ex.entry)
        return V(Ty('obj', ('opt',), cls='datetime'), z3.If(c, Ref.obj(stamp(selfv.term)), NONE))
    return term


def install(spec: Spec):
    P = spec.properties
    spec.fn('BaseEvent.event_completed_at', file=M, qual='BaseEvent.event_completed_at', params={'self': 'BaseEvent'}, returns='opt[datetime]',
            spec_term=_opt_datetime_term(COMPLETED, 'completed'),
            ensures=[('spec', '(result is not None) == (' + COMPLETED + ')', ['C03', 'C08', 'C13'])])
    P[('BaseEvent', 'event_completed_at')] = 'BaseEvent.event_completed_at'
    spec.fn('BaseEvent.event_started_at', file=M, qual='BaseEvent.event_started_at', params={'self': 'BaseEvent'}, returns='opt[datetime]',
            spec_term=_opt_datetime_term(STARTED, 'started'),
            ensures=[('spec', '(result is not None) == (' + STARTED + ')', ['C03', 'C08', 'C13'])])
    P[('BaseEvent', 'event_started_at')] = 'BaseEvent.event_started_at'
    spec.fn('BaseEvent.event_status', file=M, qual='BaseEvent.event_status', params={'self': 'BaseEvent'}, returns='str',
            spec_term="'completed' if self.event_completed_at else 'started' if self.event_started_at else 'pending'",
            ensures=[('spec', "result == ('completed' if (" + COMPLETED + ") else 'started' if (" + STARTED + ") else 'pending')", ['C03', 'C08', 'C13'])])
    P[('BaseEvent', 'event_status')] = 'BaseEvent.event_status'

    # ------------------------------------------------------------------ lazily created asyncio.Event signals
    for cls, prop, fld in (('BaseEvent', 'event_completed_signal', '_event_completed_signal'), ('EventResult', 'handler_completed_signal', '_handler_completed_signal')):
        spec.fn(cls + '.' + prop, file=M, qual=cls + '.' + prop, params={'self': cls}, returns='opt[AsyncEvent]',
                modifies=[(fld, 'self')],
                ensures=[('is_the_field', 'result is self.' + fld, ['C03']),
                         ('created_once', 'implies(old(self.' + fld + ') is not None, result is old(self.' + fld + '))', ['C03', 'C08']),
                         ('created_in_loop', 'implies(loop_running(), result is not None)', ['C03']),
                         ('fresh_unset', 'implies(old(self.' + fld + ') is None and result is not None, fresh_object(result) and not result.ev_set)', ['C03'])])
        P[(cls, prop)] = cls + '.' + prop

    # class invariant of EventResult (pydantic Literal field; the only writers are the constructor and update(), which re-establishes it)
    spec.type_invariants['EventResult'] = "x.status == 'pending' or x.status == 'started' or x.status == 'completed' or x.status == 'error'"

    # ------------------------------------------------------------------ EventResult.update (C08 C11 C12)
    K = 'old(kwargs)'
    PLAIN = "'result' in " + K + " and not isinstance(" + K + "['result'], BaseException) and 'error' not in " + K + " and 'status' not in " + K
    NEEDS_VALIDATION = "old(self.result_type) is not None and " + K + "['result'] is not None and not isinstance(" + K + "['result'], BaseEvent)"
    spec.fn('EventResult.update', file=M, qual='EventResult.update', params={'self': 'EventResult', 'kwargs': 'dict[str,any]'}, varkw='kwargs', returns='EventResult',
            requires=[('in_loop', 'loop_running()', [])],
            modifies=[('status', 'self'), ('result', 'self'), ('error', 'self'), ('started_at', 'self'), ('completed_at', 'self'),
                      ('_handler_completed_signal', 'self'), ('ev_set', '*')],
            ensures=[
                ('returns_self', 'result is self', ['C12']),
                ('typed_conforming', 'implies(' + PLAIN + ' and ' + NEEDS_VALIDATION + ' and validates_ok(old(self.result_type), ' + K + "['result']), "
                                     "self.status == 'completed' and self.result is validated(old(self.result_type), " + K + "['result']))", ['C12']),
                ('typed_nonconforming', 'implies(' + PLAIN + ' and ' + NEEDS_VALIDATION + ' and not validates_ok(old(self.result_type), ' + K + "['result']), "
                                        "self.status == 'error' and self.result is None and self.error is not None)", ['C12']),
                ('untyped_identity', 'implies(' + PLAIN + ' and not (' + NEEDS_VALIDATION + "), self.status == 'completed' and self.result is " + K + "['result'])", ['C12']),
                ('returned_exception_converted', "implies('result' in " + K + " and isinstance(" + K + "['result'], BaseException), "
                                                 "self.status == 'error' and self.error is " + K + "['result'] and self.result is None)", ['C11', 'C12']),
                ('error_recorded', "implies('error' in " + K + " and isinstance(" + K + "['error'], BaseException) and 'status' not in " + K + " and not ('result' in " + K + " and isinstance(" + K + "['result'], BaseException)), "
                                   "self.status == 'error' and self.error is " + K + "['error'])", ['C11', 'C10']),
                ('status_only', "implies('status' in " + K + " and 'result' not in " + K + " and 'error' not in " + K + ", self.status == " + K + "['status'] "
                                "and self.result is old(self.result) and self.error is old(self.error))", ['C01']),
                ('nothing_given_nothing_changes', "implies('status' not in " + K + " and 'result' not in " + K + " and 'error' not in " + K + ", self.status == old(self.status) "
                                                  "and self.result is old(self.result) and self.error is old(self.error))", ['C08']),
                ('started_at_set_once', 'implies(old(self.started_at) is not None, self.started_at is old(self.started_at))', ['C01', 'C08']),
                ('started_when_not_pending', "implies(self.status != 'pending', self.started_at is not None)", ['C01']),
                ('completed_at_set_once', 'implies(old(self.completed_at) is not None, self.completed_at is old(self.completed_at))', ['C08']),
                ('terminal_has_completed_at', "implies(self.status == 'completed' or self.status == 'error', self.completed_at is not None)", ['C03', 'C08']),
                ('status_is_valid', "self.status == 'pending' or self.status == 'started' or self.status == 'completed' or self.status == 'error'", ['C12']),
            ],
            raises=[RaisesClause('AssertionError', label='bad_keyword', tags=['C12'],
                                 when="('error' in kwargs and not isinstance(kwargs['error'], BaseException) and not isinstance(kwargs['error'], str)) or "
                                      "('status' in kwargs and not (kwargs['status'] == 'pending' or kwargs['status'] == 'started' or kwargs['status'] == 'completed' or kwargs['status'] == 'error'))")])
    spec.methods[('EventResult', 'update')] = 'EventResult.update'

    # ------------------------------------------------------------------ EventResult(...) constructor (pydantic model init, A9) and event_result_update
    from pyvc.models import kw as _kw
    from pyvc.values import mk_none, mk_str, coerce, ANY

    def eventresult_new(ex, n, awaited, recv=None):
        r = ex.fresh_obj('EventResult', 'eventresult')
        given = {k.arg: ex.eval(k.value) for k in n.keywords}
        defaults = {'status': mk_str('pending'), 'result': mk_none(), 'error': mk_none(), 'started_at': mk_none(), 'completed_at': mk_none(),
                    'timeout': mk_none(), 'result_type': mk_none(), '_handler_completed_signal': mk_none()}
        for f in ('event_id', 'handler_id', 'handler_name', 'eventbus_id', 'eventbus_name', 'status', 'timeout', 'result_type', 'result', 'error',
                  'started_at', 'completed_at', '_handler_completed_signal'):
            v = given.get(f, defaults.get(f))
            if v is None:
                raise Unsupported('EventResult() without ' + f)
            ex.write_field(r.term, f, v)
        et = ex.field_ty('event_children')
        ex.write_field(r.term, 'event_children', ex.mk_list(et.args[0], z3.K(z3.IntSort(), NONE), z3.IntVal(0)))
        st = ex.read_field(r.term, 'status')
        ok = ex.spec_bool(spec.type_invariants['EventResult'], {'x': r})
        ex.safety('ValueError', ok, 'pydantic_status_literal')
        return r
    from pyvc.values import Unsupported
    spec.builtins['EventResult.__new__'] = eventresult_new

    HID = 'hid(eventbus, handler)'
    R = 'self.event_results'
    spec.fn('BaseEvent.event_result_update', file=M, qual='BaseEvent.event_result_update', varkw='kwargs',
            params={'self': 'BaseEvent', 'handler': 'Handler', 'eventbus': 'opt[EventBus]', 'kwargs': 'dict[str,any]'}, returns='EventResult',
            requires=[('bus_given', 'eventbus is not None and loop_running()', []),
                      ('valid_status_keyword', "implies('status' in kwargs, kwargs['status'] == 'pending' or kwargs['status'] == 'started' or kwargs['status'] == 'completed' or kwargs['status'] == 'error')", []),
                      ('valid_error_keyword', "implies('error' in kwargs, isinstance(kwargs['error'], BaseException))", [])],
            assume_asserts=['eventbus is None or isinstance(eventbus, EventBus)'],
            modifies=[('event_results', 'self'), ('status', '*'), ('result', '*'), ('error', '*'), ('started_at', '*'), ('completed_at', '*'),
                      ('_handler_completed_signal', '*'), ('ev_set', '*')],
            ensures=[
                ('keyed_by_bus_and_handler', HID + ' in ' + R + ' and ' + R + '[' + HID + '] is result', ['C01', 'C07']),
                ('other_results_untouched', "forall(lambda k: implies(k != " + HID + ", (k in " + R + ") == (k in old(" + R + ")) and implies(k in " + R + ", " + R + "[k] is old(" + R + ")[k])), 'str')", ['C01', 'C08']),
                ('existing_result_reused', 'implies(' + HID + ' in old(' + R + '), result is old(' + R + ')[' + HID + '])', ['C01']),
                ('created_for_this_handler', 'implies(' + HID + ' not in old(' + R + '), fresh_object(result) and result.handler_id == ' + HID + ' and result.result_type is self.event_result_type '
                                             'and len(result.event_children) == 0)', ['C01', 'C12']),
                ('status_keyword_applied', "implies('status' in kwargs and 'result' not in kwargs and 'error' not in kwargs, result.status == kwargs['status'])", ['C01']),
                ('error_keyword_recorded', "implies('error' in kwargs and 'status' not in kwargs and 'result' not in kwargs, result.status == 'error' and result.error is kwargs['error'])", ['C11', 'C10']),
                ('started_when_not_pending', "implies(result.status != 'pending', result.started_at is not None)", ['C01']),
                ('terminal_has_completed_at', "implies(result.status == 'completed' or result.status == 'error', result.completed_at is not None)", ['C03']),
                ('started_at_set_once', 'implies(' + HID + ' in old(' + R + ') and old(' + R + '[' + HID + '].started_at) is not None, result.started_at is old(' + R + '[' + HID + '].started_at))', ['C01']),
                ('result_keyword_untyped', "implies('result' in kwargs and not isinstance(kwargs['result'], BaseException) and 'error' not in kwargs and 'status' not in kwargs and "
                                           "(result.result_type is None or kwargs['result'] is None or isinstance(kwargs['result'], BaseEvent)), result.status == 'completed' and result.result is kwargs['result'])", ['C12']),
                ('result_keyword_typed', "implies('result' in kwargs and not isinstance(kwargs['result'], BaseException) and 'error' not in kwargs and 'status' not in kwargs and "
                                         "not (result.result_type is None or kwargs['result'] is None or isinstance(kwargs['result'], BaseEvent)), "
                                         "(validates_ok(result.result_type, kwargs['result']) and result.status == 'completed' and result.result is validated(result.result_type, kwargs['result'])) or "
                                         "(not validates_ok(result.result_type, kwargs['result']) and result.status == 'error' and result.result is None and result.error is not None))", ['C12']),
                ('returned_exception_is_error', "implies('result' in kwargs and isinstance(kwargs['result'], BaseException), result.status == 'error' and result.error is kwargs['result'] and result.result is None)", ['C11']),
            ])
    spec.methods[('BaseEvent', 'event_result_update')] = 'BaseEvent.event_result_update'

    # ------------------------------------------------------------------ children views and cancellation of pending child handlers (C03, C10)
    def children_term(ex, selfv):
        # the view is a function of the two fields it reads: the same heap gives the same list
        er, ch = ex.heap_arr('event_results'), ex.heap_arr('event_children')
        lt = parse_ty('list[BaseEvent]')
        f = z3.Function('children_of', er.sort(), ch.sort(), Ref, lt.sort())
        v = V(lt, f(er, ch, selfv.term))
        memo = ex.st.flags.setdefault('children_axioms', set())
        key = v.term.get_id()
        bound = {b.term.get_id() for b in (getattr(ex, 'spec_locals', None) or {}).values() if z3.is_expr(b.term)}

        def mentions_bound(t):
            stack, seen = [t], set()
            while stack:
                x = stack.pop()
                if x.get_id() in seen:
                    continue
                seen.add(x.get_id())
                if x.get_id() in bound:
                    return True
                stack.extend(x.children())
            return False

        if key not in memo and not (bound and mentions_bound(v.term)):
            memo.add(key)
            C = ex.spec.functions['BaseEvent.event_children']
            ex.assume(ex.list_len(v) >= 0)
            for cl in C.ensures:
                ex.assume(ex.spec_bool(cl.expr, {'self': selfv, 'result': v}, entry=ex.entry))
        return v

    spec.fn('BaseEvent.event_children', file=M, qual='BaseEvent.event_children', params={'self': 'BaseEvent'}, returns='list[BaseEvent]', trusted=True, allocates=False,
            spec_term=children_term,
            ensures=[('no_results_no_children', 'implies(len(self.event_results) == 0, len(result) == 0)', ['C03']),
                     ('every_recorded_child_listed', "forall(lambda k, i: implies(k in self.event_results and 0 <= i and i < len(self.event_results[k].event_children), "
                                                     "self.event_results[k].event_children[i] in result), 'str', 'int')", ['C03', 'C10']),
                     ('only_recorded_children', "forall(lambda i: implies(0 <= i and i < len(result), exists(lambda k: k in self.event_results and result[i] in self.event_results[k].event_children, 'str')))", ['C03'])],
            notes='view: callers use a function term axiomatised by these clauses; the clauses are verified against the body under the key BaseEvent.event_children#body')
    P[('BaseEvent', 'event_children')] = 'BaseEvent.event_children'

    # the body of the view, verified against the same three clauses (callers use the function term above, whose axioms are these clauses).
    # Ghost `child_offsets[j]` = len(children) just before the j-th extend: the invariant is positional (no existential witness to find).
    spec.ghosts['child_offsets'] = parse_ty('list[int]')

    def children_extend_pre(ex, n):
        cur = ex.lookup('children')
        ex.ghost_set('child_offsets', ex.list_append(ex.ghost('child_offsets'), mk_int_(ex.list_len(cur))))

    CHJ = 'loop_seq[j].event_children'
    spec.fn('BaseEvent.event_children#body', file=M, qual='BaseEvent.event_children', params={'self': 'BaseEvent'}, returns='list[BaseEvent]', allocates=False,
            wf_fields=['event_results'], locals={'children': 'list[BaseEvent]'}, ghost_modifies=['child_offsets'],
            callsites={'children.extend': {'pre': children_extend_pre, 'ghost_writes': ['child_offsets']}},
            loops={0: {'inv': [
                ('one_offset_per_result_so_far', 'len(child_offsets) == old(len(child_offsets)) + loop_i', []),
                ('offsets_within_the_list', "forall(lambda j: implies(0 <= j and j < loop_i, 0 <= child_offsets[old(len(child_offsets)) + j] and "
                                            "child_offsets[old(len(child_offsets)) + j] + len(" + CHJ + ") <= len(children)))", []),
                ('children_of_results_so_far_listed_in_place', "forall(lambda j, i: implies(0 <= j and j < loop_i and 0 <= i and i < len(" + CHJ + "), "
                                                               "children[child_offsets[old(len(child_offsets)) + j] + i] is " + CHJ + "[i]), 'int', 'int')", ['C03', 'C10']),
                ('only_children_of_results_so_far', "forall(lambda i: implies(0 <= i and i < len(children), exists(lambda j: 0 <= j and j < loop_i and children[i] in " + CHJ + ", 'int')))", ['C03']),
            ]}},
            ensures=[Clause_of(c) for c in [
                ('no_results_no_children', 'implies(len(self.event_results) == 0, len(result) == 0)', ['C03']),
                ('every_recorded_child_listed', "forall(lambda k, i: implies(k in self.event_results and 0 <= i and i < len(self.event_results[k].event_children), "
                                                "self.event_results[k].event_children[i] in result), 'str', 'int')", ['C03', 'C10']),
                ('only_recorded_children', "forall(lambda i: implies(0 <= i and i < len(result), exists(lambda k: k in self.event_results and result[i] in self.event_results[k].event_children, 'str')))", ['C03'])]])

    TWO_STATE = [
        ('only_pending_results_touched', "forall(lambda r: implies(old(r.status) != 'pending', r.status == old(r.status) and r.error is old(r.error) and r.completed_at is old(r.completed_at) "
                                         "and r.started_at is old(r.started_at) and r.result is old(r.result)), 'EventResult')", ['C10', 'C08']),
        ('never_creates_pending', "forall(lambda r: implies(r.status == 'pending', old(r.status) == 'pending'), 'EventResult')", ['C10']),
        ('cancelled_become_errors', "forall(lambda r: implies(old(r.status) == 'pending' and r.status != 'pending', r.status == 'error' and r.error is not None and r.completed_at is not None), 'EventResult')", ['C10']),
    ]
    NO_PENDING = lambda ev: "forall(lambda k: implies(k in " + ev + ".event_results, " + ev + ".event_results[k].status != 'pending'), 'str')"
    # relative to the state at entry of the inner loop: whatever was not pending then is untouched (so every fact about
    # non-pending results established by the outer loop before it still holds)
    STEP = [('inner_loop_touches_only_pending', "forall(lambda r: implies(loop_old(r.status) != 'pending', r.status == loop_old(r.status)), 'EventResult')", ['C10'])]
    GRAND = lambda ev: "forall(lambda m: implies(0 <= m and m < len(" + ev + ".event_children), " + NO_PENDING(ev + ".event_children[m]") + "))"
    spec.ghosts['cancel_walk_calls'] = parse_ty('int')    # recursive descents made by the cancellation walk of this activation (task-owned)

    def walk_pre(ex, n):
        from pyvc.values import mk_int as _mi
        ex.ghost_set('cancel_walk_calls', _mi(ex.ghost('cancel_walk_calls').term + 1))

    OUTER = [('children_done_so_far', "forall(lambda j: implies(0 <= j and j < loop_i0, " + NO_PENDING('loop_seq0[j]') + "))", ['C10']),
             ('descended_into_every_child_so_far', 'cancel_walk_calls >= old(cancel_walk_calls) + loop_i0', ['C10'])]
    spec.fn('BaseEvent.event_cancel_pending_child_processing', file=M, qual='BaseEvent.event_cancel_pending_child_processing',
            params={'self': 'BaseEvent', 'error': 'BaseException'}, returns='NoneType',
            requires=[('in_loop', 'loop_running()', [])],
            modifies=[('status', '*'), ('error', '*'), ('result', '*'), ('started_at', '*'), ('completed_at', '*'), ('_handler_completed_signal', '*'), ('ev_set', '*')],
            ghost_modifies=['cancel_walk_calls'],
            callsites={'child_event.event_cancel_pending_child_processing': {'pre': walk_pre, 'ghost_writes': ['cancel_walk_calls']}},
            loops={0: {'inv': TWO_STATE + OUTER},
                   1: {'inv': TWO_STATE + STEP + [('results_done_so_far', "forall(lambda t: implies(0 <= t and t < loop_i1, loop_seq1[t].status != 'pending'))", ['C10']),
                                                  ('descended_into_every_child_so_far', 'cancel_walk_calls >= old(cancel_walk_calls) + loop_i0', ['C10'])]}},
            ensures=TWO_STATE + [('no_pending_left_in_children', "forall(lambda i: implies(0 <= i and i < len(self.event_children), " + NO_PENDING('self.event_children[i]') + "))", ['C10']),
                                 ('walk_descends_into_every_child', 'cancel_walk_calls >= old(cancel_walk_calls) + len(self.event_children)', ['C10'])])
    spec.methods[('BaseEvent', 'event_cancel_pending_child_processing')] = 'BaseEvent.event_cancel_pending_child_processing'

    # ------------------------------------------------------------------ completion (C03 C08)
    spec.define('signalled', ['e'], 'e._event_completed_signal is not None and e._event_completed_signal.ev_set')
    spec.define('all_results_terminal', ['e'], ALL_TERMINAL.replace('self.', 'e.'))
    spec.define('children_completed', ['e'], "forall(lambda i: implies(0 <= i and i < len(e.event_children), e.event_children[i].event_status == 'completed'))")

    # the visited set is shared by reference down the recursion (a PySet object); OLDV(k) = k was visited before this activation
    OLDV = lambda k: "(old(_visited) is not None and " + k + " in old(old(_visited).set_members))"
    NOWV = "(self.event_id if False else None)"
    NEWLY_CHECKED = ("forall(lambda e: implies(result and visited_now(e.event_id) and not " + OLDV('e.event_id') + ", children_completed(e)), 'BaseEvent')")
    spec.fn('BaseEvent.event_are_all_children_complete', file=M, qual='BaseEvent.event_are_all_children_complete',
            params={'self': 'BaseEvent', '_visited': 'opt[PySet]'}, returns='bool', locals={'_visited': 'PySet'},
            assumes=[('P6_event_ids_identify_events', "forall(lambda a, b: implies(a.event_id == b.event_id, a is b), 'BaseEvent', 'BaseEvent')", [])],
            modifies=[('set_members', '*')],
            loops={0: {'inv': [('children_so_far_completed', "forall(lambda j: implies(0 <= j and j < loop_i, loop_seq[j].event_status == 'completed'))", ['C03']),
                               ('visited_only_grows', "forall(lambda k: implies(loop_old(k in _visited.set_members), k in _visited.set_members), 'str')", ['C03']),
                               ('everything_newly_visited_was_checked', "forall(lambda e: implies(e.event_id in _visited.set_members and not " + OLDV('e.event_id') + " and e is not self, children_completed(e)), 'BaseEvent')", ['C03']),
                               ('children_so_far_marked', "forall(lambda j: implies(0 <= j and j < loop_i, loop_seq[j].event_id in _visited.set_members))", ['C03']),
                               ('self_is_marked', 'self.event_id in _visited.set_members', ['C03'])]}},
            ensures=[('visited_only_grows', "implies(_visited is not None, forall(lambda k: implies(k in old(_visited.set_members), k in _visited.set_members), 'str'))", ['C03']),
                     ('self_is_marked', "implies(_visited is not None, self.event_id in _visited.set_members)", ['C03']),
                     ('everything_newly_visited_was_checked', "implies(_visited is not None and result, forall(lambda e: implies(e.event_id in _visited.set_members and not "
                      + OLDV('e.event_id') + ", children_completed(e)), 'BaseEvent'))", ['C03']),
                     ('true_only_if_children_completed', 'implies(result and not ' + OLDV('self.event_id') + ', children_completed(self))', ['C03']),
                     ('true_only_if_descendants_were_checked', "implies(result and not " + OLDV('self.event_id') + ", forall(lambda i: implies(0 <= i and i < len(self.event_children), "
                      + OLDV('self.event_children[i].event_id') + " or children_completed(self.event_children[i]))))", ['C03'])],
            notes='')
    spec.methods[('BaseEvent', 'event_are_all_children_complete')] = 'BaseEvent.event_are_all_children_complete'

    spec.fn('BaseEvent.event_mark_complete_if_all_handlers_completed', file=M, qual='BaseEvent.event_mark_complete_if_all_handlers_completed',
            params={'self': 'BaseEvent'}, returns='NoneType',
            requires=[('in_loop', 'loop_running()', [])],
            modifies=[('_event_completed_signal', 'self'), ('ev_set', '*'), ('event_processed_at', 'self'), ('set_members', '*')],
            ensures=[('signals_only_when_handlers_done', 'implies(signalled(self) and not old(signalled(self)), old(all_results_terminal(self)))', ['C03']),
                     ('signals_only_when_children_done', 'implies(signalled(self) and not old(signalled(self)), old(children_completed(self)))', ['C03']),
                     ('never_unsignals', 'implies(old(signalled(self)), signalled(self) and self.event_processed_at is old(self.event_processed_at))', ['C08']),
                     ('signals_when_handlers_and_children_done', 'implies(old(all_results_terminal(self)) and old(len(self.event_results) == 0), signalled(self))', ['C03']),
                     ('other_signals_untouched', "forall(lambda s: implies(s is not self._event_completed_signal, s.ev_set == old(s.ev_set)), 'AsyncEvent')", ['C03', 'C08'])])
    spec.methods[('BaseEvent', 'event_mark_complete_if_all_handlers_completed')] = 'BaseEvent.event_mark_complete_if_all_handlers_completed'




def install_event_bus(spec: Spec):
    """BaseEvent.event_bus (C09, finding F9)."""
    running_bus = z3.Function('bus_running_the_current_handler', Ref, Ref)   # nothing in the code records it: uninterpreted
    spec.specfuns['running_bus'] = lambda ex, e: V(obj('EventBus'), running_bus(e.term))
    spec.fn('BaseEvent.event_bus', file=M, qual='BaseEvent.event_bus', params={'self': 'BaseEvent'}, returns='EventBus', allocates=False,
            ensures=[('a_bus_named_like_the_last_path_entry', 'len(self.event_path) > 0 and result.name == self.event_path[len(self.event_path) - 1]', ['C09']),
                     ('is_the_bus_running_this_handler', 'result is running_bus(self)', ['C09'])],
            raises=[RaisesClause('AttributeError', label='outside_handler', when="not ctx('inside_handler')", origin='raise@', tags=['C09']),
                    RaisesClause('RuntimeError', label='no_such_bus', origin='raise@', tags=['C09'])])
    spec.properties[('BaseEvent', 'event_bus')] = 'BaseEvent.event_bus'


def install_late(spec: Spec):
    """Contracts that refer to interference specs defined by service_c (installed after it)."""
    install_event_bus(spec)
    from pyvc.values import mk_none
    # ------------------------------------------------------------------ BaseEvent.__await__ (C02 C03 C04 C05 C10 C15 C16)
    from pyvc.spec import Interference
    from pyvc.values import mk_int as _mi, mk_bool as _mb
    spec.ghosts['inhand'] = parse_ty('int')          # events taken from a queue by this activation and not yet task_done()d (0 or 1)
    spec.ghosts['inhand_q'] = parse_ty('any')        # the queue the event in hand came from
    descends = z3.Function('descends_from', Ref, Ref, z3.BoolSort())     # event a is a (transitive) child of event b: no fact is known about it here
    quiescent = z3.Function('no_other_task_holds_an_unstarted_event_of', Ref, z3.BoolSort())

    def aw_get_pre(ex, n):
        # C02: an event may be taken from a bus queue inline only if no earlier event of that bus is dequeued-but-not-started elsewhere
        bus = ex.lookup('bus')
        ex.oblige('callsite:get_nowait/requires', 'no_earlier_event_of_this_bus_in_hand_elsewhere', quiescent(bus.term), ['C02'])

    def aw_wait_pre(ex, n):
        # C04 (safety core of "never deadlocks"): a handler that holds the global lock must not block on the completion signal of an
        # event that is not complete - nothing else could process that event or its descendants while the lock is held
        ex.oblige('callsite:event_completed_signal.wait/requires', 'no_blocking_wait_while_holding_the_lock_inside_a_handler',
                  ex.spec_bool("signalled(self) or not (ctx('inside_handler') and ctx('holds_global_lock'))", dict(ex.st.env)), ['C04'])

    def aw_get_post_model(ex, n, awaited, recv=None):
        # C05: once the awaited event is complete nothing more is taken from any queue
        ex.oblige('callsite:get_nowait/requires', 'stops_draining_once_the_awaited_event_is_complete', ex.spec_bool('not signalled(self)', dict(ex.st.env)), ['C05'])
        aw_get_pre(ex, n)
        q = ex.eval(n.func.value)
        C = ex.spec.functions['CleanShutdownQueue.get_nowait']
        # A5 (with every task balancing its task_done() calls): a queue's unfinished count is never below its size
        ex.assume(ex.read_field(q.term, 'q_unfinished').term >= ex.list_len(ex.read_field(q.term, 'q_items')))
        r = ex.apply_contract(C, {'self': q})
        ex.ghost_set('inhand', _mi(ex.ghost('inhand').term + 1))
        ex.ghost_set('inhand_q', q)
        ex.ghost_set('dequeued', ex.list_append(ex.ghost('dequeued'), r))
        return r

    def aw_process_pre(ex, n):
        me = ex.lookup('self')
        ev = ex.lookup('event')
        bus = ex.lookup('bus')
        # C05: what is processed inline is the awaited event or one of its descendants
        ex.oblige('callsite:process_event/requires', 'inline_target_is_awaited_event_or_descendant', z3.Or(ev.term == me.term, descends(ev.term, me.term)), ['C05'])
        # C16: only a running bus may have its queue drained inline
        ex.oblige('callsite:process_event/requires', 'inline_bus_is_running', ex.read_field(bus.term, '_is_running').term, ['C16'])

    def aw_task_done_model(ex, n, awaited, recv=None):
        q = ex.eval(n.func.value)
        from contracts import axioms_asyncio as ax
        ax.queue_task_done(ex, n, awaited, q)
        ex.ghost_set('task_done_calls', _mi(ex.ghost('task_done_calls').term + 1))
        ex.ghost_set('inhand', _mi(ex.ghost('inhand').term - 1))
        return mk_none()

    Q_ACC = "implies(inhand == 1, inhand_q is not None and inhand_q.q_unfinished >= len(inhand_q.q_items) + 1)"
    spec.interference['await'] = Interference('await', havoc=['*'], keep=spec.interference['default'].keep,
        rely=spec.interference['handlers'].rely + [Clause_of(('signals_are_never_cleared', "forall(lambda s: implies(old(s.ev_set), s.ev_set), 'AsyncEvent')", [])),
                                                   Clause_of(('queues_are_kept', "forall(lambda b: implies(old(b.event_queue) is not None, b.event_queue is old(b.event_queue)), 'EventBus')", [])),
                                                   Clause_of(('signal_objects_are_kept', "forall(lambda e: implies(old(e._event_completed_signal) is not None, e._event_completed_signal is old(e._event_completed_signal)), 'BaseEvent')", []))],
        inv=[('queue_accounting', Q_ACC, ['C15']), ('at_most_one_in_hand', 'inhand == 0 or inhand == 1', ['C15'])])

    IN_HANDLER_BRANCH = "old(not signalled(self)) and ctx('inside_handler') and ctx('holds_global_lock')"
    spec.fn('BaseEvent.__await__.wait', file=M, qual='BaseEvent.__await__.<locals>.wait_for_handlers_to_complete_then_return_event', is_async=True,
            interference='await', params={}, free={'self': 'BaseEvent'}, returns='BaseEvent', cancel_must_propagate=True,
            ignore_callee_raises={'EventBus.process_event': ['unexpected']},
            requires=[('in_loop', 'loop_running()', []),
                      ('nothing_in_hand', 'inhand == 0', [])],
            modifies=[('_event_completed_signal', '*'), ('ev_set', '*'), ('q_items', '*'), ('q_unfinished', '*'), ('event_results', '*'), ('status', '*'), ('result', '*'), ('error', '*'),
                      ('started_at', '*'), ('completed_at', '*'), ('_handler_completed_signal', '*'), ('event_processed_at', '*'), ('set_members', '*'), ('event_history', '*'), ('task_done', '*'), ('task_cancel_requested', '*')],
            ghost_modifies=['inhand', 'inhand_q', 'dequeued', 'processed', 'task_done_calls', 'invoked', 'eh_calls', 'spawned_tasks', 'wal_calls', 'mark_attempts', 'pe_handlers_entered', 'wal_lines', 'wal_opens', 'cancel_walk_calls'],
            callsites={'bus.event_queue.get_nowait': {'model': aw_get_post_model, 'writes': ['q_items'], 'ghost_writes': ['inhand', 'inhand_q', 'dequeued']},
                       'bus.process_event': {'pre': aw_process_pre},
                       'self.event_completed_signal.wait': {'pre': aw_wait_pre},
                       'bus.event_queue.task_done': {'model': aw_task_done_model, 'writes': ['q_unfinished'], 'ghost_writes': ['task_done_calls', 'inhand']}},
            loops={0: {'inv': [('nothing_in_hand_between_iterations', 'inhand == 0', ['C15', 'C10']), ('queue_accounting', Q_ACC, ['C15']), ('iterations_bounded', 'iterations >= 0', [])]},
                   1: {'inv': [('nothing_in_hand_between_buses', 'inhand == 0', ['C15', 'C10']), ('queue_accounting', Q_ACC, ['C15']),
                               ('awaited_event_not_complete_yet', 'not signalled(self)', ['C05'])]}},
            exits_ensure=[('every_taken_event_is_task_done', 'inhand == 0', ['C10', 'C15'])],
            ensures=[('returns_the_same_event', 'result is self', ['C03', 'C04']),
                     ('complete_at_return_outside_handlers', 'implies(not (' + IN_HANDLER_BRANCH + '), signalled(self))', ['C03']),
                     ('complete_at_return_inside_handlers', 'implies(' + IN_HANDLER_BRANCH + ', signalled(self))', ['C04'])],
            raises_tags=['C03', 'C04', 'C11'],
            raises=[RaisesClause('CancelledError', label='cancelled', tags=['C04', 'C10']),
                    ])

    # ------------------------------------------------------------------ result accessors (C11 C12)
    spec.fn('EventResult.__await__.wait', file=M, qual='EventResult.__await__.<locals>.wait_for_handler_to_complete_and_return_result', is_async=True,
            params={}, free={'self': 'EventResult'}, returns='any', interference='results', cancel_must_propagate=True,
            requires=[('in_loop', 'loop_running()', [])],
            assume_asserts=['self.handler_completed_signal is not None'],
            modifies=[('_handler_completed_signal', 'self'), ('ev_set', '*'), ('task_done', '*')],
            ensures=[('returns_the_recorded_value', 'result is self.result', ['C12']),
                     ('no_recorded_error', "not (self.status == 'error' and self.error is not None)", ['C11'])],
            raises=[RaisesClause('TimeoutError', label='handler_not_finished_in_time', origin='raise@', when='self.timeout is not None'),
                    RaisesClause('BaseException', label='recorded_error', origin='raise@', tags=['C11'],
                                 ensures=[('is_the_original_object', "isinstance(raised, TimeoutError) or raised is self.error", ['C11'])]),
                    RaisesClause('CancelledError', label='cancelled')])
    spec.methods[('EventResult', '__await__')] = 'EventResult.__await__.wait'

    def include_pure(ex, n):
        f = ex.lookup('include')
        r = ex.eval(n.args[0])
        return mk_bool_(holds_fn(coerce_(f).term, r.term))
    holds_fn = z3.Function('user_include', Ref, Ref, z3.BoolSort())
    from pyvc.values import mk_bool as mk_bool_, coerce as _coerce, ANY as _ANY
    coerce_ = lambda v: _coerce(v, _ANY)
    spec.specfuns.setdefault('holds', lambda ex, f, e: mk_bool_(holds_fn(coerce_(f).term, e.term)))

    ER = 'self.event_results'
    IS_ERR = lambda r: "(" + r + ".error is not None or isinstance(" + r + ".result, BaseException))"
    spec.interference['results'] = Interference('results', havoc=['*'], keep=spec.interference['default'].keep,
        rely=[Clause_of(('signal_objects_are_kept', "forall(lambda e: implies(old(e._event_completed_signal) is not None, e._event_completed_signal is old(e._event_completed_signal)), 'BaseEvent')", []))])
    spec.fn('BaseEvent.event_results_filtered', file=M, qual='BaseEvent.event_results_filtered', is_async=True, interference='results', wf_fields=['event_results'],
            params={'self': 'BaseEvent', 'timeout': 'opt[real]', 'include': 'any', 'raise_if_any': 'bool', 'raise_if_none': 'bool'}, returns='dict[str,EventResult]',
            locals={'event_results': 'dict[str,EventResult]', 'included_results': 'dict[str,EventResult]', 'error_results': 'dict[str,EventResult]',
                    'event_results_by_handler_id': 'dict[str,EventResult]'},
            requires=[('in_loop', 'loop_running()', [])],
            modifies=[('_event_completed_signal', 'self'), ('_handler_completed_signal', '*'), ('ev_set', '*'), ('task_done', '*')],
            callsites={'include(event_result)': {'pure': include_pure}},
            ensures=[('not_empty_when_raise_if_none', 'implies(raise_if_none, len(result) > 0)', ['C12'])],
            raises=[RaisesClause('CancelledError', label='cancelled'),
                    RaisesClause('TimeoutError', label='not_completed_in_time', origin='asyncio.wait_for'),
                    RaisesClause('BaseException', label='requested_raise', tags=['C11', 'C12'], origin='raise@',
                                 ensures=[('only_if_asked', 'raise_if_any or raise_if_none', ['C11', 'C12'])]),
                    # a recorded error that is not an Exception (the CancelledError bubus records on interrupted handlers) is re-raised by
                    # `await event_result` past `except Exception`, whatever raise_if_any says; such results exist only on events whose
                    # completion is never signalled today (second witness of F5), so the accessor cannot get this far: declared, not a finding
                    RaisesClause('BaseException', label='recorded_non_exception_error', origin='call:EventResult.__await__.wait/recorded_error',
                                 ensures=[('not_an_exception', 'not isinstance(raised, Exception)', ['C11'])])])
    spec.methods[('BaseEvent', 'event_results_filtered')] = 'BaseEvent.event_results_filtered'

    spec.fn('BaseEvent._event_result_is_truthy', file=M, qual='BaseEvent._event_result_is_truthy', params={'event_result': 'EventResult'}, returns='bool', allocates=False,
            ensures=[('default_filter', "result == (event_result.status == 'completed' and event_result.result is not None and not isinstance(event_result.result, BaseException) "
                                        "and event_result.error is None and not isinstance(event_result.result, BaseEvent))", ['C12'])])
