"""Contracts for bubus/models.py (BaseEvent / EventResult)."""
import z3

from pyvc import models, smt
from pyvc.smt import NONE, Ref
from pyvc.spec import RaisesClause, Spec
from pyvc.values import V, fresh_name, obj, parse_ty, Ty

M = 'bubus/models.py'

# the specification of the derived properties, written in the contract language over the real fields
ALL_TERMINAL = "all(r.status in ('completed', 'error') for r in self.event_results.values())"
COMPLETED = ALL_TERMINAL + " and (any(r.completed_at is not None for r in self.event_results.values()) or self.event_processed_at is not None)"
STARTED = "any(r.started_at is not None for r in self.event_results.values()) or self.event_processed_at is not None"


def _opt_datetime_term(expr):
    def term(ex, selfv):
        c = ex.spec_bool(expr, {'self': selfv}, entry=ex.entry)
        k = z3.Int(fresh_name('dt'))
        return V(Ty('obj', ('opt',), cls='datetime'), z3.If(c, Ref.obj(k), NONE))
    return term


def install(spec: Spec):
    P = spec.properties
    spec.fn('BaseEvent.event_completed_at', file=M, qual='BaseEvent.event_completed_at', params={'self': 'BaseEvent'}, returns='opt[datetime]',
            spec_term=_opt_datetime_term(COMPLETED),
            ensures=[('spec', '(result is not None) == (' + COMPLETED + ')', ['C03', 'C08', 'C13'])])
    P[('BaseEvent', 'event_completed_at')] = 'BaseEvent.event_completed_at'
    spec.fn('BaseEvent.event_started_at', file=M, qual='BaseEvent.event_started_at', params={'self': 'BaseEvent'}, returns='opt[datetime]',
            spec_term=_opt_datetime_term(STARTED),
            ensures=[('spec', '(result is not None) == (' + STARTED + ')', ['C03', 'C08', 'C13'])])
    P[('BaseEvent', 'event_started_at')] = 'BaseEvent.event_started_at'
    spec.fn('BaseEvent.event_status', file=M, qual='BaseEvent.event_status', params={'self': 'BaseEvent'}, returns='str',
            spec_term="'completed' if self.event_completed_at else 'started' if self.event_started_at else 'pending'",
            ensures=[('spec', "result == ('completed' if (" + COMPLETED + ") else 'started' if (" + STARTED + ") else 'pending')", ['C03', 'C08', 'C13'])])
    P[('BaseEvent', 'event_status')] = 'BaseEvent.event_status'

    # ------------------------------------------------------------------ lazily created asyncio.Event signals
    for cls, prop, fld in (('BaseEvent', 'event_completed_signal', '_event_completed_signal'), ('EventResult', 'handler_completed_signal', '_handler_completed_signal')):
        spec.fn(cls + '.' + prop, file=M, qual=cls + '.' + prop, params={'self': cls}, returns='opt[AsyncEvent]',
                modifies=[(fld, 'self')],
                ensures=[('is_the_field', 'result is self.' + fld, ['C03']),
                         ('created_once', 'implies(old(self.' + fld + ') is not None, result is old(self.' + fld + '))', ['C03', 'C08']),
                         ('created_in_loop', 'implies(loop_running(), result is not None)', ['C03']),
                         ('fresh_unset', 'implies(old(self.' + fld + ') is None and result is not None, fresh_object(result) and not result.ev_set)', ['C03'])])
        P[(cls, prop)] = cls + '.' + prop

    # class invariant of EventResult (pydantic Literal field; the only writers are the constructor and update(), which re-establishes it)
    spec.type_invariants['EventResult'] = "x.status == 'pending' or x.status == 'started' or x.status == 'completed' or x.status == 'error'"

    # ------------------------------------------------------------------ EventResult.update (C08 C11 C12)
    K = 'old(kwargs)'
    PLAIN = "'result' in " + K + " and not isinstance(" + K + "['result'], BaseException) and 'error' not in " + K + " and 'status' not in " + K
    NEEDS_VALIDATION = "old(self.result_type) is not None and " + K + "['result'] is not None and not isinstance(" + K + "['result'], BaseEvent)"
    spec.fn('EventResult.update', file=M, qual='EventResult.update', params={'self': 'EventResult', 'kwargs': 'dict[str,any]'}, varkw='kwargs', returns='EventResult',
            requires=[('in_loop', 'loop_running()', [])],
            modifies=[('status', 'self'), ('result', 'self'), ('error', 'self'), ('started_at', 'self'), ('completed_at', 'self'),
                      ('_handler_completed_signal', 'self'), ('ev_set', '*')],
            ensures=[
                ('returns_self', 'result is self', ['C12']),
                ('typed_conforming', 'implies(' + PLAIN + ' and ' + NEEDS_VALIDATION + ' and validates_ok(old(self.result_type), ' + K + "['result']), "
                                     "self.status == 'completed' and self.result is validated(old(self.result_type), " + K + "['result']))", ['C12']),
                ('typed_nonconforming', 'implies(' + PLAIN + ' and ' + NEEDS_VALIDATION + ' and not validates_ok(old(self.result_type), ' + K + "['result']), "
                                        "self.status == 'error' and self.result is None and self.error is not None)", ['C12']),
                ('untyped_identity', 'implies(' + PLAIN + ' and not (' + NEEDS_VALIDATION + "), self.status == 'completed' and self.result is " + K + "['result'])", ['C12']),
                ('returned_exception_converted', "implies('result' in " + K + " and isinstance(" + K + "['result'], BaseException), "
                                                 "self.status == 'error' and self.error is " + K + "['result'] and self.result is None)", ['C11', 'C12']),
                ('error_recorded', "implies('error' in " + K + " and isinstance(" + K + "['error'], BaseException) and 'status' not in " + K + " and not ('result' in " + K + " and isinstance(" + K + "['result'], BaseException)), "
                                   "self.status == 'error' and self.error is " + K + "['error'])", ['C11', 'C10']),
                ('status_only', "implies('status' in " + K + " and 'result' not in " + K + " and 'error' not in " + K + ", self.status == " + K + "['status'] "
                                "and self.result is old(self.result) and self.error is old(self.error))", ['C01']),
                ('nothing_given_nothing_changes', "implies('status' not in " + K + " and 'result' not in " + K + " and 'error' not in " + K + ", self.status == old(self.status) "
                                                  "and self.result is old(self.result) and self.error is old(self.error))", ['C08']),
                ('started_at_set_once', 'implies(old(self.started_at) is not None, self.started_at is old(self.started_at))', ['C01', 'C08']),
                ('started_when_not_pending', "implies(self.status != 'pending', self.started_at is not None)", ['C01']),
                ('completed_at_set_once', 'implies(old(self.completed_at) is not None, self.completed_at is old(self.completed_at))', ['C08']),
                ('terminal_has_completed_at', "implies(self.status == 'completed' or self.status == 'error', self.completed_at is not None)", ['C03', 'C08']),
                ('status_is_valid', "self.status == 'pending' or self.status == 'started' or self.status == 'completed' or self.status == 'error'", ['C12']),
            ],
            raises=[RaisesClause('AssertionError', label='bad_keyword', tags=['C12'],
                                 when="('error' in kwargs and not isinstance(kwargs['error'], BaseException) and not isinstance(kwargs['error'], str)) or "
                                      "('status' in kwargs and not (kwargs['status'] == 'pending' or kwargs['status'] == 'started' or kwargs['status'] == 'completed' or kwargs['status'] == 'error'))")])
    spec.methods[('EventResult', 'update')] = 'EventResult.update'
