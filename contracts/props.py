"""Property -> functions under contract, trusted base, clauses not decided (DESIGN.md section 6)."""

AX = {
    'A1': 'A1 one event loop, cooperative scheduling: control is lost only at await / async with / async for',
    'A2': 'A2 create_task(coro): runs coro once, later, in a copy of the creator context (or the given context)',
    'A3': 'A3 asyncio.wait_for / asyncio.wait semantics (result or exception of the awaitable; TimeoutError on expiry after cancelling it)',
    'A4': 'A4 asyncio.timeout(t): a CancelledError leaving the block becomes TimeoutError iff the deadline fired',
    'A5': 'A5 asyncio.Queue: FIFO, put_nowait/get_nowait/task_done/join accounting, QueueFull/QueueEmpty',
    'A6': 'A6 asyncio.Event / asyncio.Semaphore: value >= 0, acquire returns holding one permit, a cancelled acquire holds nothing',
    'A7': 'A7 ContextVar get/set/reset act on the current task context only',
    'A8': 'A8 CancelledError arises only at suspension points (task cancelled, inner task cancelled, or user code raised it); asyncio.current_task().cancelling() > 0 exactly when a cancellation of the current task was requested',
    'A9': 'A9 pydantic TypeAdapter/model_validate return a conforming value or raise; model_dump_json returns one line',
    'A10': 'A10 CPython: unbounded ints, id() injective on live objects, dicts insertion ordered, list.sort stable, finite class table with one generic user subclass per exception class',
    'X1': 'X1 logger.* / warnings.warn calls are dropped together with the evaluation of their arguments',
    'X2': 'X2 exception constructor arguments and message f-strings are not evaluated',
    'P1': 'P1 floats and datetimes are reals (rounding ignored); b**k is an uninterpreted function pow_real(b,k)',
    'P2': "P2 the f-string templates '{}.{}' used for handler ids and semaphore keys are injective in their parts",
    'P5': 'P5 container-valued fields are owned by their object (no aliasing of list/dict objects across owners)',
}

SERIAL_ONLY = ('parallel_handlers=True buses: the task-per-handler branch of _execute_handlers is verified too; A2/A2b for its tasks: a spawned handler task runs its coroutine once in the copied '
               'context, `await task` resumes only when it is done, gather() without return_exceptions resumes at the first failure, and nobody cancels a handler task except through its awaiter')
HANDLER_MODEL = 'handlers are arbitrary user code: may call any public API, suspend, return anything, raise any Exception or CancelledError'

AWAIT_TB = [AX[k] for k in ('A1', 'A5', 'A6', 'A7', 'A8', 'A10', 'X1', 'X2')] + [SERIAL_ONLY,
    'A5\': with every task balancing its task_done() calls, a queue\'s unfinished count is never below its size',
    'rely while suspended: completion signals are never cleared or replaced, queues are never replaced, terminal results are frozen']

PROPERTIES = {
    'C13': {
        'functions': ['EventBus.cleanup_event_history', 'EventBus.dispatch', 'EventBus.process_event', 'BaseEvent.event_status', 'BaseEvent.event_completed_at', 'BaseEvent.event_started_at',
                      'EventBus._start', 'CleanShutdownQueue.put_nowait'],
        'trusted_base': [AX[k] for k in ('A1', 'A5', 'A10', 'X1', 'X2', 'P1', 'P5')] + [SERIAL_ONLY,
            'history dict representation invariant (distinct keys, insertion order) assumed on reads (A10)',
            'datetimes are ordered by their timestamp() (P1)'],
        'level': 'other',
        'not_decided': ['third sentence ("eviction never changes what gets processed / can still be awaited"): stated for the direct parent only (process_event/ensures:completion_propagated_to_parent, '
                        'open finding F11); that processing itself does not read the history is by inspection of step/_get_next_event (they read the queue only)'],
        'assumptions': [],
    },
    'C12': {
        'functions': ['EventResult.update', 'BaseEvent.event_result_update', 'BaseEvent._event_result_is_truthy', 'BaseEvent.event_results_filtered', 'EventResult.__await__.wait',
                      'BaseEvent.event_results_by_handler_id', 'BaseEvent.event_results_by_handler_name', 'BaseEvent.event_result', 'BaseEvent.event_results_list', 'BaseEvent.event_results_flat_list', 'BaseEvent.event_results_flat_dict',
                      'EventResult.handler_completed_signal', 'BaseEvent.event_completed_signal', 'bubus.get_handler_id', 'bubus.get_handler_name'],
        'trusted_base': [AX[k] for k in ('A1', 'A3', 'A6', 'A9', 'A10', 'X1', 'X2')] + [
            'A9: validates_ok(T, v) / validated(T, v) are pydantic\'s verdict and coerced value for (declared type, returned value): uninterpreted, deterministic; '
            'model_validate for BaseModel classes, TypeAdapter(T).validate_python otherwise; a TypeAdapter that cannot be built accepts nothing',
            'EventResult(...) constructor = pydantic model init (fields set from keywords, defaults otherwise)',
            'include filters are pure user predicates (uninterpreted, total, a function of the result object); a lambda handed to an inner accessor means its body, evaluated on the heap at the return of that call',
            'the accessor wrappers are stated over the ghost `last_view` = the dict returned by their inner event_results_filtered call (set at the call site)'],
        'level': 'other',
        'not_decided': ['event_results_flat_dict: the KEY ORDER of the merged dict is not stated (membership = union of the included dict values, last writer wins, ValueError on a repeated key '
                        'iff raise_if_conflicts are decided); returned dict / list values are objects with the heap fields dict_items / list_items, dict.update is axiomatised (A10)',
                        'conformance of pydantic itself (A9) - a bounded table-driven stand-in is not included'],
        'assumptions': [],
    },
    'C02': {
        'functions': ['BaseEvent.__await__.wait', 'CleanShutdownQueue.put_nowait', 'CleanShutdownQueue.get_nowait', 'EventBus.dispatch', 'EventBus._get_next_event', 'EventBus.step',
                      'EventBus._start', 'EventBus.cleanup_event_history', 'EventBus._run_loop', 'EventBus.process_event'],
        'level': 'other',
        'trusted_base': AWAIT_TB + ['asyncio.Queue is FIFO (A5); CleanShutdownQueue.get() (the blocking variant used by the run loop) is the base class get + shutdown test: assumed, only get_nowait/put_nowait are verified against A5'],
        'not_decided': ['"does not start a later event while an earlier handler runs" is C06 (process_event only under the global lock) plus: the only callers of process_event are step() and the inline loop'],
        'assumptions': [],
    },
    'C03': {
        'functions': ['BaseEvent.__await__.wait', 'EventBus.process_event', 'CleanShutdownQueue.get_nowait', 'BaseEvent.event_completed_signal', 'BaseEvent.event_mark_complete_if_all_handlers_completed', 'BaseEvent.event_are_all_children_complete', 'BaseEvent.event_children', 'BaseEvent.event_children#body'] + ['BaseEvent.event_completed_at', 'BaseEvent.event_status', 'EventBus._execute_handlers', 'EventBus._get_applicable_handlers'],
        'level': 'other',
        'trusted_base': AWAIT_TB + ['event_are_all_children_complete: verified with an inductive contract over its visited set, assuming P6 (distinct events have distinct event_id); event_children: the view clauses used by callers are verified against its body (contract BaseEvent.event_children#body, positional invariant with ghost offsets)'],
        'not_decided': ['"always returns" and "the waiter is released without further stimulus" are liveness; the converse direction is stated for the direct parent only '
                        '(process_event/ensures:completion_propagated_to_parent, open finding F11), not for the whole ancestor chain'],
        'assumptions': [],
    },
    'C04': {
        'functions': ['BaseEvent.__await__.wait', 'EventBus.process_event', 'CleanShutdownQueue.get_nowait', 'BaseEvent.event_completed_signal', 'BaseEvent.event_mark_complete_if_all_handlers_completed', 'BaseEvent.event_are_all_children_complete', 'BaseEvent.event_children', 'BaseEvent.event_children#body'] + ['ReentrantLock.__aenter__', 'ReentrantLock.__aexit__'],
        'level': 'other',
        'trusted_base': AWAIT_TB,
        'not_decided': ['deadlock freedom as such (liveness); decided: the handler branch never takes the lock nor calls step(), and what it returns'],
        'assumptions': [],
    },
    'C05': {
        'functions': ['BaseEvent.__await__.wait', 'EventBus.process_event', 'CleanShutdownQueue.get_nowait'],
        'level': 'other',
        'trusted_base': AWAIT_TB + ['`descends_from(a, b)` (a is a transitive child of b) is uninterpreted: nothing in the code establishes it for a dequeued head, which is the finding'],
        'not_decided': ['the split of F0 into queued-before / queued-later witnesses (DESIGN.md) is not implemented: any worsening at this call site is the same finding'],
        'assumptions': [],
    },
    'C15': {
        'functions': ['BaseEvent.__await__.wait', 'EventBus.wait_until_idle', 'EventBus.step', 'EventBus._get_next_event', 'EventBus._run_loop', 'EventBus.dispatch', 'EventBus._start',
                      'CleanShutdownQueue.put_nowait', 'CleanShutdownQueue.get_nowait', 'EventBus.events_pending', 'EventBus.events_started', 'EventBus.process_event'],
        'level': 'other',
        'trusted_base': [AX[k] for k in ('A1', 'A2', 'A3', 'A5', 'A6', 'A8', 'A10', 'X1', 'X2')] + [SERIAL_ONLY,
            'queue accounting as an assume-guarantee invariant: every task keeps unfinished >= queued + (events it took and has not task_done()d) at its suspension points',
            'a dequeued event may be dropped without task_done() only when the bus is being stopped (_is_running already False) or the run-loop task is cancelled while polling'],
        'not_decided': ['"it does return once that is the case": liveness of the 0.1 s poll that raises the idle flag; only its safety core is decided '
                        '(flag raised only when nothing is queued/pending/started; task_done() on every exit path; join() can only block on unbalanced accounting)',
                        'the inline-processing loop of BaseEvent.__await__ (second dequeue site) is under contract for C02/C10 (see there)'],
        'assumptions': [],
    },
    'C16': {
        'functions': ['EventBus._start.close_hook', 'BaseEvent.__await__.wait', 'EventBus.stop', 'EventBus.wait_until_idle', 'EventBus._run_loop', 'EventBus._get_next_event', 'EventBus.step', 'CleanShutdownQueue.shutdown',
                      'EventBus._check_total_memory_usage', 'EventBus._execute_handlers', 'EventBus.execute_handler', 'EventBus._default_wal_handler', 'EventBus.expect'],
        'trusted_base': [AX[k] for k in ('A1', 'A2', 'A3', 'A5', 'A8', 'X1', 'X2')] + [SERIAL_ONLY,
            'bounded = every suspension point of stop()/wait_until_idle(timeout) is an asyncio wait with a non-None timeout (A3 bounds each by its timeout); the number of polling iterations is not bounded here (P4)',
            'cancellation: a CancelledError delivered at any suspension point of _get_next_event / wait_until_idle / stop / expect / _default_wal_handler leaves the function as CancelledError; '
            'the run loop makes no further step() after one was delivered',
            'the loop-close hook close_with_cleanup (installed by _start) is verified as a closure over a list snapshot of the buses registered on the loop: every registered bus is stopped'],
        'not_decided': ['"after stop() returns no handler of that bus starts": decided for the run loop (it ends on cancellation / sees _is_running False); the inline-processing loop of BaseEvent.__await__ '
                        'may process a bus\'s queue only if that bus is running (call-site pre-condition, finding G3, repaired)',
                        'wall-clock bound of stop(): sum of the given timeout and 0.1 s, per A3'],
        'assumptions': [],
    },
    'C18': {
        'functions': ['EventBus.expect', 'EventBus.expect.notify', 'EventBus.on', 'EventBus._get_applicable_handlers', 'EventBus._would_create_loop', 'bubus.get_handler_id',
                      'EventBus._handler_dispatched_ancestor'],
        'trusted_base': [AX[k] for k in ('A1', 'A3', 'A8', 'A10', 'X1', 'X2')] + [
            'EventBus.on is verified: it appends the handler under key(pattern) ("*", class name or the string) of a defaultdict(list)',
            'include / exclude / predicate are user predicates: deterministic per event (uninterpreted), may raise any Exception',
            'rely while expect() is suspended: other tasks neither remove nor duplicate this call\'s temporary handler',
            'lemma (over the contracts, not machine-checked): the temporary handler is offered exactly the events whose event_type equals its key (or all, for "*") by _get_applicable_handlers, '
            'once per processed event (C01), in the bus\'s processing order; the closure resolves the future only for the first matching one'],
        'not_decided': ['that a matching event arriving within `timeout` is seen in time (timer accuracy, A3)'],
        'assumptions': [],
    },
    'C01': {
        'functions': ['EventBus._get_applicable_handlers', 'EventBus._would_create_loop', 'bubus.get_handler_id', 'EventBus._handler_dispatched_ancestor',
                      'EventBus.process_event', 'EventBus._execute_handlers', 'EventBus.execute_handler', 'EventBus.step', 'EventBus._get_next_event',
                      'BaseEvent.event_result_update', 'EventResult.update', 'EventBus._default_wal_handler', 'EventBus._default_log_handler',
                      'BaseEvent.event_mark_complete_if_all_handlers_completed', 'EventBus.cleanup_event_history', 'BaseEvent.event_cancel_pending_child_processing',
                      'BaseEvent.event_children', 'BaseEvent.event_children#body', 'BaseEvent.event_are_all_children_complete', 'bubus.get_handler_name'],
        'level': 'other',
        'trusted_base': [AX[k] for k in ('A1', 'A2', 'A3', 'A5', 'A7', 'A8', 'A9', 'A10', 'X1', 'X2', 'P2', 'P5')] + [SERIAL_ONLY, HANDLER_MODEL,
            'rely (interference at suspension points): terminal results never change, started results are only changed by their own execute_handler, results are never removed from an event',
            'ghost counters: invoked (handler invocations), eh_calls (execute_handler activations), processed/dequeued (events entered/taken by this task)'],
        'not_decided': ['the all-schedules at-most-once invariant Inv01 of DESIGN.md is decided only through its per-function pieces: selection == spec, one execute_handler per selected handler, '
                        'one invocation per execute_handler with the result marked started before it, already-started results are filtered and refused, every dequeued event is handed to process_event once'],
        'assumptions': [],
    },
    'C06': {
        'functions': ['ReentrantLock._get_semaphore', 'ReentrantLock.__aenter__', 'ReentrantLock.__aexit__', 'bubus._get_global_lock', 'EventBus.step', 'EventBus._run_loop',
                      'EventBus.process_event', 'EventBus._execute_handlers', 'EventBus.execute_handler', 'EventBus._get_next_event'],
        'trusted_base': [AX[k] for k in ('A1', 'A2', 'A6', 'A7', 'A8', 'A10', 'X1', 'X2')] + [SERIAL_ONLY, HANDLER_MODEL,
            'user tasks spawned by handlers do not outlive the handler while carrying its context (a copy with holds_global_lock=True)',
            'the lock depth counter is not changed by other tasks while this task tree holds the lock (children finish their nested enter/exit pairs)',
            'mutual exclusion itself is asyncio.Semaphore(1) (A6) given: a handler is invoked only with holds_global_lock set (call-site pre-condition of every invocation), the flag is set only '
            'by __aenter__ together with acquiring the permit or inherited from the holder, it is released exactly when the outermost holder exits, and every run loop starts from a clean context'],
        'not_decided': [],
        'assumptions': [],
    },
    'C10': {
        'functions': ['BaseEvent.__await__.wait', 'EventBus.execute_handler', 'EventBus._execute_handlers', 'EventBus.process_event', 'EventBus.step', 'EventResult.update', 'BaseEvent.event_result_update',
                      'BaseEvent.event_cancel_pending_child_processing', 'EventBus._get_next_event', 'BaseEvent.event_children', 'BaseEvent.event_children#body'],
        
        'trusted_base': [AX[k] for k in ('A1', 'A2', 'A3', 'A5', 'A8', 'A10', 'X1', 'X2')] + [SERIAL_ONLY, HANDLER_MODEL,
            'event_cancel_pending_child_processing: contract assumed (recursive walk), not verified'],
        'not_decided': ['that the cancellation lands at `timeout` seconds (timer accuracy is asyncio.wait_for, A3)',
                        'second witness of finding F5 (a cancellation interrupting process_event left the event with only terminal results and an unset completion signal): now under contract (process_event/raises:cancelled:completion_attempted_before_passing_the_cancellation_on) and repaired (fix F5b); what is decided is that completion is ATTEMPTED on every cancelled exit after the handler phase began - that the attempt succeeds needs the converse direction of event_are_all_children_complete, which is not stated'],
        'assumptions': [],
    },
    'C11': {
        'functions': ['EventBus.execute_handler', 'EventBus._execute_handlers', 'EventBus.process_event', 'EventBus.step', 'EventBus._run_loop', 'EventResult.update',
                      'BaseEvent.event_result_update', 'EventBus._get_next_event'],
        'level': 'other',
        'trusted_base': [AX[k] for k in ('A1', 'A2', 'A3', 'A8', 'A10', 'X1', 'X2')] + [SERIAL_ONLY, HANDLER_MODEL],
        'not_decided': ['the result accessors (raise_if_any) are decided under C12'],
        'assumptions': [],
    },
    'C17': {
        'functions': ['EventBus.process_event', 'EventBus._default_wal_handler', 'EventBus._default_log_handler'],
        'trusted_base': [AX[k] for k in ('A1', 'A8', 'A9', 'X1', 'X2')] + [SERIAL_ONLY,
            'file system model: mkdir, open, write, close and model_dump_json may each fail with any Exception (all fault sequences); a failing close() does not replace a cancellation already propagating',
            'ghost wal_lines = texts handed to file.write() on a file opened on self.wal_path in mode a'],
        'not_decided': ['each line validates back into an equal event (pydantic serialiser round-trip): not decided here',
                        'order of lines across events = order in which process_event activations finish their handler phase (follows from one append per activation + C06)'],
        'assumptions': [],
    },
    'C08': {
        'functions': ['EventBus.process_event', 'EventResult.update', 'BaseEvent.event_result_update', 'BaseEvent.event_mark_complete_if_all_handlers_completed',
                      'BaseEvent.event_completed_at', 'BaseEvent.event_started_at', 'BaseEvent.event_status', 'BaseEvent.event_completed_signal',
                      'BaseEvent.event_cancel_pending_child_processing', 'BaseEvent.event_children', 'BaseEvent.event_children#body'],
        'level': 'other',
        'trusted_base': [AX[k] for k in ('A1', 'A6', 'A10', 'X1', 'X2')],
        'not_decided': ['the two-state invariant "signalled => results frozen" is decided through its writer-side obligations only: no result is created on a signalled event (fails: F4), '
                        'the completion signal is never cleared, completed_at/started_at are set once, mark_complete never unsignals'],
        'assumptions': [],
    },
    'C09': {
        'functions': ['EventBus.dispatch', 'EventBus._start', 'CleanShutdownQueue.put_nowait', 'EventBus.cleanup_event_history', 'EventBus._run_loop',
                      'EventBus.step', 'EventBus._get_next_event', 'EventBus.execute_handler', 'BaseEvent.event_bus'],
        'level': 'other',
        'trusted_base': [AX[k] for k in ('A1', 'A2', 'A5', 'A7', 'A10', 'X1', 'X2', 'P5')] + [
            'P6 distinct live events have distinct event_id (uuid7)', 'each child is listed at most once before the call (established by dispatch itself, the only writer of event_children)'],
        'not_decided': [],
        'assumptions': [],
    },
    'C07': {
        'functions': ['EventBus.dispatch', 'EventBus._would_create_loop', 'EventBus._get_applicable_handlers', 'bubus.get_handler_id',
                      'EventBus._handler_dispatched_ancestor', 'bubus.get_handler_name', 'EventBus._start', 'EventBus.cleanup_event_history',
                      'CleanShutdownQueue.put_nowait'],
        'trusted_base': [AX[k] for k in ('A1', 'A5', 'A7', 'A10', 'X1', 'X2', 'P2', 'P5')] + [
            'P3 distinct live buses have distinct names (EventBus.__init__ renames on conflict)',
            'registered handlers satisfy the class invariant asserted by EventBus.on (function / coroutine function / bound method; only bound methods have __self__)',
            'lemma (over the contracts, argued in DESIGN.md section 6 C07, not machine-checked): a forwarding handler passes the filter only if its target is not in the path, '
            'dispatch appends the target name exactly once, so |buses \\ path| strictly decreases along forwarding: termination and once-per-bus follow with C01'],
        'not_decided': ['exactly-once processing per reachable bus is the composition with C01 (per-bus handler ids) and is not restated here'],
        'assumptions': [],
    },
    'C14': {
        'functions': ['EventBus.dispatch', 'EventBus._start', 'CleanShutdownQueue.put_nowait', 'EventBus.cleanup_event_history', 'EventBus._run_loop'],
        'trusted_base': [AX[k] for k in ('A1', 'A2', 'A5', 'A7', 'A10', 'X1', 'X2', 'P5')] + [
            'bus object invariant: _is_running implies event_queue is not None; event_queue is not None implies _on_idle is not None (proved preserved by _start and dispatch)',
            'the loop-close hook installed by _start (close_with_cleanup) is not executed by dispatch and is not verified here',
            'EventBus.cleanup_event_history contract is assumed here and verified under C13'],
        'not_decided': ['"accepted events are then processed" is C01/C02 (dequeue sites hand every dequeued event to process_event); here: accepted => enqueued at the tail, exactly once'],
        'assumptions': [],
    },
    'C19': {
        'functions': ['helpers._execute_with_retries', 'helpers.retry.wrapper'],
        'trusted_base': [AX[k] for k in ('A1', 'A4', 'A8', 'A10', 'X1', 'X2', 'P1')] + [
            'the wrapped function is arbitrary user code: it may return anything, raise any Exception or CancelledError, and is a suspension point',
            'precondition retries >= 0 (with retries < 0 the loop is empty and the trailing RuntimeError is reached)'],
        'not_decided': ['float rounding of wait*backoff_factor**k (reals assumed, ** uninterpreted on both sides)',
                        'that the deadline of asyncio.timeout fires at exactly `timeout` seconds (timer accuracy, A4)'],
        'assumptions': ['machine arithmetic: Python ints are unbounded (exact); floats treated as mathematical reals'],
    },
    'C20': {
        'functions': ['helpers._get_semaphore_key', 'helpers._calculate_semaphore_timeout', 'helpers._get_or_create_semaphore',
                      'helpers._acquire_asyncio_semaphore', 'helpers._track_active_operations', 'helpers._check_system_overload_if_needed',
                      'helpers._check_system_overload', 'helpers._acquire_multiprocess_semaphore', 'helpers.retry.wrapper'],
        'trusted_base': [AX[k] for k in ('A1', 'A4', 'A6', 'A8', 'A10', 'X1', 'X2', 'P1', 'P2', 'P5')] + [
            "semaphore_scope='multiprocess' (portalocker file locks, asyncio.to_thread) is out of reach: excluded by precondition",
            'the concurrency bound itself (at most L bodies in progress per key) is asyncio.Semaphore\'s (A6) given: one semaphore object per key '
            'created with L permits (registry clauses), body entered only holding a permit or in the lax-timeout case, every permit released exactly once'],
        'level': 'other',
        'not_decided': ['multiprocess scope'],
        'assumptions': ['threading.Lock context managers around the registry are no-ops within one event-loop thread (A1)'],
    },
}
