"""Property -> functions under contract, trusted base, clauses not decided (DESIGN.md section 6)."""

AX = {
    'A1': 'A1 one event loop, cooperative scheduling: control is lost only at await / async with / async for',
    'A2': 'A2 create_task(coro): runs coro once, later, in a copy of the creator context (or the given context)',
    'A3': 'A3 asyncio.wait_for / asyncio.wait semantics (result or exception of the awaitable; TimeoutError on expiry after cancelling it)',
    'A4': 'A4 asyncio.timeout(t): a CancelledError leaving the block becomes TimeoutError iff the deadline fired',
    'A5': 'A5 asyncio.Queue: FIFO, put_nowait/get_nowait/task_done/join accounting, QueueFull/QueueEmpty',
    'A6': 'A6 asyncio.Event / asyncio.Semaphore: value >= 0, acquire returns holding one permit, a cancelled acquire holds nothing',
    'A7': 'A7 ContextVar get/set/reset act on the current task context only',
    'A8': 'A8 CancelledError arises only at suspension points (task cancelled, inner task cancelled, or user code raised it)',
    'A9': 'A9 pydantic TypeAdapter/model_validate return a conforming value or raise; model_dump_json returns one line',
    'A10': 'A10 CPython: unbounded ints, id() injective on live objects, dicts insertion ordered, list.sort stable, finite class table with one generic user subclass per exception class',
    'X1': 'X1 logger.* / warnings.warn calls are dropped together with the evaluation of their arguments',
    'X2': 'X2 exception constructor arguments and message f-strings are not evaluated',
    'P1': 'P1 floats and datetimes are reals (rounding ignored); b**k is an uninterpreted function pow_real(b,k)',
    'P2': "P2 the f-string templates '{}.{}' used for handler ids and semaphore keys are injective in their parts",
    'P5': 'P5 container-valued fields are owned by their object (no aliasing of list/dict objects across owners)',
}

PROPERTIES = {
    'C19': {
        'functions': ['helpers._execute_with_retries', 'helpers.retry.wrapper'],
        'trusted_base': [AX[k] for k in ('A1', 'A4', 'A8', 'A10', 'X1', 'X2', 'P1')] + [
            'the wrapped function is arbitrary user code: it may return anything, raise any Exception or CancelledError, and is a suspension point',
            'precondition retries >= 0 (with retries < 0 the loop is empty and the trailing RuntimeError is reached)'],
        'not_decided': ['float rounding of wait*backoff_factor**k (reals assumed, ** uninterpreted on both sides)',
                        'that the deadline of asyncio.timeout fires at exactly `timeout` seconds (timer accuracy, A4)'],
        'assumptions': ['machine arithmetic: Python ints are unbounded (exact); floats treated as mathematical reals'],
    },
    'C20': {
        'functions': ['helpers._get_semaphore_key', 'helpers._calculate_semaphore_timeout', 'helpers._get_or_create_semaphore',
                      'helpers._acquire_asyncio_semaphore', 'helpers._track_active_operations', 'helpers._check_system_overload_if_needed',
                      'helpers._check_system_overload', 'helpers._acquire_multiprocess_semaphore', 'helpers.retry.wrapper'],
        'trusted_base': [AX[k] for k in ('A1', 'A4', 'A6', 'A8', 'A10', 'X1', 'X2', 'P1', 'P2', 'P5')] + [
            "semaphore_scope='multiprocess' (portalocker file locks, asyncio.to_thread) is out of reach: excluded by precondition",
            'the concurrency bound itself (at most L bodies in progress per key) is asyncio.Semaphore\'s (A6) given: one semaphore object per key '
            'created with L permits (registry clauses), body entered only holding a permit or in the lax-timeout case, every permit released exactly once'],
        'not_decided': ['multiprocess scope', 'semaphores cached across successive event loops (finding F13: asyncio.Semaphore is loop-bound once contended)'],
        'assumptions': ['threading.Lock context managers around the registry are no-ops within one event-loop thread (A1)'],
    },
}
