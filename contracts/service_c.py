"""Contracts for bubus/service.py."""
import z3

from pyvc import models, smt
from pyvc.values import V
from pyvc.smt import NONE, Ref
from pyvc.spec import Clause, Interference, RaisesClause, Spec

Clause_ = Clause.of
from pyvc.values import V, coerce, fresh, fresh_name, mk_bool, mk_int, mk_none, obj, parse_ty, Ty, ANY, BOOL, PY

S = 'bubus/service.py'
M = 'bubus/models.py'


def null_model(ex, n, awaited, recv=None):
    return mk_none()


def sf_unchanged(ex, name):
    """unchanged('field'): the whole heap field is as it was at function entry."""
    lit = [k for k, v in smt._LITS.items() if v.eq(name.term)][0]
    return mk_bool(ex.heap_arr(lit) == ex.heap_arr(lit, ex.entry['heap']))


def install(spec: Spec):
    spec.specfuns['unchanged'] = sf_unchanged

    # ------------------------------------------------------------------ small pure helpers of models.py
    spec.fn('bubus.get_handler_id', file=M, qual='get_handler_id', params={'handler': 'Handler', 'eventbus': 'any'}, returns='str',
            ensures=[('bus_and_handler', 'implies(eventbus is not None, result == fmt2(id(eventbus), id(handler)))', ['C01', 'C07'])], allocates=False)
    spec.fn('bubus.get_handler_name', trusted=True, params={'handler': 'Handler'}, returns='str', allocates=False,
            notes='only produces display names (log lines, EventResult.handler_name); assumed total for handlers accepted by on()')

    # ------------------------------------------------------------------ CleanShutdownQueue (verified against the base-class axiom A5)
    spec.fn('CleanShutdownQueue.put_nowait', file=S, qual='CleanShutdownQueue.put_nowait',
            params={'self': 'CleanShutdownQueue', 'item': 'BaseEvent'}, returns='NoneType', allocates=False,
            modifies=[('q_items', 'self'), ('q_unfinished', 'self')],
            ensures=[('appends_at_tail', 'self.q_items == old(self.q_items) + [item]', ['C02', 'C14']),
                     ('counts', 'self.q_unfinished == old(self.q_unfinished) + 1', ['C15']),
                     ('was_open', 'not self._is_shutdown and not (self.q_maxsize > 0 and len(old(self.q_items)) >= self.q_maxsize)', ['C14'])],
            raises=[RaisesClause('QueueShutDown', when='self._is_shutdown', ensures=[('nothing_queued', 'self.q_items == old(self.q_items) and self.q_unfinished == old(self.q_unfinished)', ['C14'])]),
                    RaisesClause('QueueFull', when='self.q_maxsize > 0 and len(self.q_items) >= self.q_maxsize',
                                 ensures=[('nothing_queued', 'self.q_items == old(self.q_items) and self.q_unfinished == old(self.q_unfinished)', ['C14'])])])
    spec.methods[('CleanShutdownQueue', 'put_nowait')] = 'CleanShutdownQueue.put_nowait'
    spec.fn('CleanShutdownQueue.get_nowait', file=S, qual='CleanShutdownQueue.get_nowait',
            params={'self': 'CleanShutdownQueue'}, returns='BaseEvent', allocates=False,
            modifies=[('q_items', 'self')],
            ensures=[('takes_head', 'len(old(self.q_items)) > 0 and result is old(self.q_items)[0] and self.q_items == old(self.q_items)[1:]', ['C02']),
                     ('unfinished_kept', 'self.q_unfinished == old(self.q_unfinished)', ['C15'])],
            raises=[RaisesClause('QueueShutDown', when='self._is_shutdown and len(self.q_items) == 0', ensures=[('nothing_taken', 'self.q_items == old(self.q_items)', ['C02'])]),
                    RaisesClause('QueueEmpty', when='len(self.q_items) == 0', ensures=[('nothing_taken', 'self.q_items == old(self.q_items)', ['C02'])])])
    spec.methods[('CleanShutdownQueue', 'get_nowait')] = 'CleanShutdownQueue.get_nowait'

    # ------------------------------------------------------------------ list occurrence helpers for contracts
    def occurrences(ex, lst, x, exactly_one):
        n = ex.list_len(lst)
        el = ex.list_elems(lst)
        i, j = z3.Int(fresh_name('oi')), z3.Int(fresh_name('oj'))
        xt = coerce(x, lst.ty.args[0]).term
        le1 = z3.ForAll([i, j], z3.Implies(z3.And(0 <= i, i < j, j < n), z3.Not(z3.And(z3.Select(el, i) == xt, z3.Select(el, j) == xt))))
        if not exactly_one:
            return mk_bool(le1)
        return mk_bool(z3.And(le1, z3.Exists([i], z3.And(0 <= i, i < n, z3.Select(el, i) == xt))))
    spec.specfuns['count_le1'] = lambda ex, l, x: occurrences(ex, l, x, False)
    spec.specfuns['count_eq1'] = lambda ex, l, x: occurrences(ex, l, x, True)

    # ------------------------------------------------------------------ EventBus._start / cleanup (callee contracts of dispatch)
    spec.methods[('EventBus', '_run_loop')] = 'EventBus._run_loop'

    BUS_INV = 'implies(self._is_running, self.event_queue is not None) and implies(self.event_queue is not None, self._on_idle is not None)'
    spec.fn('EventBus._start', file=S, qual='EventBus._start', params={'self': 'EventBus'}, returns='NoneType', spawns=['EventBus._run_loop'],
            modifies=[('event_queue', 'self'), ('_on_idle', 'self'), ('_runloop_task', 'self'), ('_is_running', 'self')],
            requires=[('bus_invariant', BUS_INV, ['C14'])],
            callsites={'weakref.WeakSet': {'model': null_model}, 'loop._eventbus_instances.add': {'model': null_model}},
            ensures=[
                ('bus_invariant', BUS_INV, ['C14']),
                ('queue_created', 'implies(loop_running(), self._is_running and self.event_queue is not None and self._on_idle is not None)', ['C14']),
                ('queue_kept', 'implies(old(self.event_queue) is not None, self.event_queue is old(self.event_queue) and self._on_idle is old(self._on_idle))', ['C14', 'C02']),
                ('fresh_queue_empty', 'implies(old(self.event_queue) is None and self.event_queue is not None, fresh_object(self.event_queue) and len(self.event_queue.q_items) == 0 '
                 'and self.event_queue.q_unfinished == 0 and not self.event_queue._is_shutdown and self.event_queue.q_maxsize == (50 if self.max_history_size is not None else 0))', ['C14']),
                ('no_loop_no_start', 'implies(not loop_running(), self._is_running == old(self._is_running) and self.event_queue is old(self.event_queue))', ['C14']),
            ])
    spec.methods[('EventBus', '_start')] = 'EventBus._start'
    spec.dropped_attr_stores = {'close', '_eventbus_close_hooked', '_eventbus_instances', '_log_destroy_pending', '__name__'}

    def sf_loop_running(ex):
        from pyvc.symexec import MOD
        return ex.read_field(MOD, 'g$loop_running')
    spec.specfuns['loop_running'] = sf_loop_running

    # ------------------------------------------------------------------ cleanup_event_history (C13)
    from pyvc.models import dt_key as _dt_key
    spec.methods[('datetime', 'timestamp')] = lambda ex, n, awaited, recv: V(parse_ty('real'), _dt_key(recv.term))
    CLASSES_IN_ORDER = ['completed_events', 'started_events', 'pending_events']

    def extend_pre(ex, n):
        """k-th `events_to_remove.extend(...)` in source order removes from the k-th status class: completed, then started, then pending."""
        calls = [c for c in _ast.walk(ex.fn_node) if isinstance(c, _ast.Call) and _ast.unparse(c.func) == 'events_to_remove.extend']
        calls.sort(key=lambda c: (c.lineno, c.col_offset))
        k = [i for i, c in enumerate(calls) if c is n][0]
        if k >= len(CLASSES_IN_ORDER):
            ex.oblige('callsite:events_to_remove.extend/requires', 'at_most_three_classes', z3.BoolVal(False), ['C13'])
            return
        env = dict(ex.st.env)
        env['$arg'] = ex.refresh(ex.eval(n.args[0]))
        L = CLASSES_IN_ORDER[k]
        earlier = ' + '.join('len(%s)' % c for c in CLASSES_IN_ORDER[:k]) or '0'
        clauses = [
            ('removes_a_prefix_of_its_class', "len(arg) <= len(%s) and forall(lambda t: implies(0 <= t and t < len(arg), arg[t] == %s[t][0]))" % (L, L)),
            ('class_is_sorted_oldest_first', "forall(lambda i, j: implies(0 <= i and i < j and j < len(%s), %s[i][1].event_created_at.timestamp() <= %s[j][1].event_created_at.timestamp()))" % (L, L, L)),
            ('earlier_classes_fully_removed_first', "len(events_to_remove) == %s" % earlier),
            ('removes_no_more_than_needed', "len(events_to_remove) + len(arg) <= len(self.event_history) - self.max_history_size"),
        ]
        env['arg'] = env.pop('$arg')
        for label, expr in clauses:
            ex.oblige('callsite:events_to_remove.extend#%d(%s)/requires' % (k, L), label, ex.spec_bool(expr, env), ['C13'])
        ex.st.flags['extends_seen'] = ex.st.flags.get('extends_seen', 0) + 1

    def _sf_pos(ex, d, k):
        keys, n, has, val, idx = ex.dict_parts(d)
        from pyvc.values import to_smt as _ts, coerce as _co
        return mk_int(z3.Select(idx, _ts(_co(k, d.ty.args[0]))))
    spec.specfuns['pos'] = _sf_pos
    H_ = 'self.event_history'

    def ids_facts(L):
        # the ids collected in a class list are history keys met so far, in history order - hence pairwise distinct
        return [(L + '_ids_in_history_order', "forall(lambda k1, k2: implies(0 <= k1 and k1 < k2 and k2 < len(%s), pos(%s, %s[k1][0]) < pos(%s, %s[k2][0])))" % (L, H_, L, H_, L), ['C13']),
                (L + '_ids_below_the_cursor', "forall(lambda k: implies(0 <= k and k < len(%s), pos(%s, %s[k][0]) < loop_i))" % (L, H_, L), ['C13'])]

    STATUS_OF = {'pending_events': "%s.event_status == 'pending'", 'started_events': "%s.event_status == 'started'",
                 'completed_events': "(%s.event_status != 'pending' and %s.event_status != 'started')"}

    def sort_post(L):
        def hook(ex, n, r):
            env = dict(ex.st.env)
            st = STATUS_OF[L] % (((L + '[k][1]'),) * STATUS_OF[L].count('%s'))
            for label, expr in [
                ('sorted_entries_are_the_class_entries', "forall(lambda k: implies(0 <= k and k < len(%s), %s and %s[k][0] in %s and %s[%s[k][0]] is %s[k][1]))" % (L, st, L, H_, H_, L, L)),
                ('sorted_ids_still_distinct', "forall(lambda k1, k2: implies(0 <= k1 and k1 < k2 and k2 < len(%s), %s[k1][0] != %s[k2][0]))" % (L, L, L)),
            ]:
                ex.oblige('callsite:%s.sort/ensures' % L, label, ex.spec_bool(expr, env), ['C13'])
        return hook

    def extend_post(ex, n, r):
        """after the k-th extend: everything collected so far is a history key, pairwise distinct, and of the classes extended so far"""
        calls = [c for c in _ast.walk(ex.fn_node) if isinstance(c, _ast.Call) and _ast.unparse(c.func) == 'events_to_remove.extend']
        calls.sort(key=lambda c: (c.lineno, c.col_offset))
        k = [i for i, c in enumerate(calls) if c is n][0]
        env = dict(ex.st.env)
        E = 'events_to_remove'
        clauses = [('collected_ids_are_history_keys', "forall(lambda t: implies(0 <= t and t < len(%s), %s[t] in %s))" % (E, E, H_)),
                   ('collected_ids_are_distinct', "forall(lambda t1, t2: implies(0 <= t1 and t1 < t2 and t2 < len(%s), %s[t1] != %s[t2]))" % (E, E, E))]
        if k == 0:
            clauses.append(('collected_so_far_neither_pending_nor_started', "forall(lambda t: implies(0 <= t and t < len(%s), %s[%s[t]].event_status != 'pending' and %s[%s[t]].event_status != 'started'))" % (E, H_, E, H_, E)))
        elif k == 1:
            clauses.append(('collected_so_far_not_pending', "forall(lambda t: implies(0 <= t and t < len(%s), %s[%s[t]].event_status != 'pending'))" % (E, H_, E)))
        for label, expr in clauses:
            ex.oblige('callsite:events_to_remove.extend#%d/ensures' % k, label, ex.spec_bool(expr, env), ['C13'])

    CLASS_OF = {'pending_events': "== 'pending'", 'started_events': "== 'started'"}
    PART_INV = [('partition_counts', 'len(pending_events) + len(started_events) + len(completed_events) == loop_i', ['C13']),
                ('pending_are_pending', "forall(lambda k: implies(0 <= k and k < len(pending_events), pending_events[k][1].event_status == 'pending' and pending_events[k][0] in self.event_history "
                                        "and self.event_history[pending_events[k][0]] is pending_events[k][1]))", ['C13']),
                ('started_are_started', "forall(lambda k: implies(0 <= k and k < len(started_events), started_events[k][1].event_status == 'started' and started_events[k][0] in self.event_history "
                                        "and self.event_history[started_events[k][0]] is started_events[k][1]))", ['C13']),
                ('completed_are_neither', "forall(lambda k: implies(0 <= k and k < len(completed_events), completed_events[k][1].event_status != 'pending' and completed_events[k][1].event_status != 'started' "
                                          "and completed_events[k][0] in self.event_history and self.event_history[completed_events[k][0]] is completed_events[k][1]))", ['C13'])]
    spec.fn('EventBus.cleanup_event_history', file=S, qual='EventBus.cleanup_event_history', params={'self': 'EventBus'}, returns='int', allocates=False, wf_fields=['event_history'],
            locals={'pending_events': 'list[tuple[str,BaseEvent]]', 'started_events': 'list[tuple[str,BaseEvent]]', 'completed_events': 'list[tuple[str,BaseEvent]]',
                    'events_to_remove': 'list[str]'},
            modifies=[('event_history', 'self')],
            callsites={'events_to_remove.extend': {'pre': extend_pre, 'post': extend_post},
                       'completed_events.sort': {'post': sort_post('completed_events')}, 'started_events.sort': {'post': sort_post('started_events')},
                       'pending_events.sort': {'post': sort_post('pending_events')}},
            loops={0: {'inv': PART_INV + ids_facts('pending_events') + ids_facts('started_events') + ids_facts('completed_events')},
                   1: {'inv': [('one_entry_removed_per_id', 'len(self.event_history) == len(loop_old(self.event_history)) - loop_i', ['C13']),
                               ('remaining_ids_still_present', 'forall(lambda t: implies(loop_i <= t and t < len(loop_seq), loop_seq[t] in self.event_history))', ['C13']),
                               ('removed_ids_are_distinct', 'forall(lambda t1, t2: implies(0 <= t1 and t1 < t2 and t2 < len(loop_seq), loop_seq[t1] != loop_seq[t2]))', ['C13']),
                               ]}},
            ensures=[('bound', 'implies(self.max_history_size is not None and self.max_history_size > 0, '
                               'len(self.event_history) == min(len(old(self.event_history)), self.max_history_size))', ['C13']),
                     ('no_limit_no_change', 'implies(self.max_history_size is None or self.max_history_size == 0, self.event_history == old(self.event_history))', ['C13']),
                     ('nothing_removed_when_within_limit', 'implies(self.max_history_size is not None and len(old(self.event_history)) <= self.max_history_size, self.event_history == old(self.event_history))', ['C13']),
                     ('returns_number_removed', 'result == len(old(self.event_history)) - len(self.event_history)', ['C13'])])
    spec.methods[('EventBus', 'cleanup_event_history')] = 'EventBus.cleanup_event_history'

    # ------------------------------------------------------------------ EventBus.dispatch (C07 C09 C13 C14)
    IN_HANDLER = ("ctx('current_handler_id') is not None and ctx('inside_handler') and ctx('current_event') is not None "
                  "and ctx('current_handler_id') in ctx('current_event').event_results and event is not ctx('current_event')")
    CH = "ctx('current_event').event_results[ctx('current_handler_id')].event_children"
    NO_TRACE = [
        ('history_unchanged', 'self.event_history == old(self.event_history)', ['C14', 'C15']),
        ('queue_unchanged', 'implies(old(self.event_queue) is not None, self.event_queue.q_items == old(self.event_queue.q_items))', ['C14']),
        ('children_unchanged', "unchanged('event_children')", ['C14']),
    ]
    spec.fn('EventBus.dispatch', file=S, qual='EventBus.dispatch', params={'self': 'EventBus', 'event': 'BaseEvent'}, returns='BaseEvent',
            requires=[
                ('bus_invariant', BUS_INV, ['C14']),
                ('event_ids_unique', "implies(ctx('current_event') is not None and ctx('current_event') is not event, ctx('current_event').event_id != event.event_id)", ['C09']),
                ('children_listed_once', 'implies(' + IN_HANDLER + ', count_le1(' + CH + ', event))', ['C09']),
            ],
            modifies=[('event_parent_id', 'event'), ('event_children', '*'), ('event_path', 'event'), ('q_items', '*'), ('q_unfinished', '*'),
                      ('event_history', 'self'), ('event_queue', 'self'), ('_on_idle', 'self'), ('_runloop_task', 'self'), ('_is_running', 'self')],
            ensures=[
                ('same_object', 'result is event', ['C07', 'C14']),
                ('path_append_once', 'implies(self.name not in old(event.event_path), event.event_path == old(event.event_path) + [self.name])', ['C07']),
                ('path_kept_if_seen', 'implies(self.name in old(event.event_path), event.event_path == old(event.event_path))', ['C07']),
                ('enqueued_at_tail', 'self.event_queue is not None and self.event_queue.q_items == (old(self.event_queue.q_items) if old(self.event_queue) is not None else []) + [event]', ['C14', 'C02']),
                ('counted', 'implies(old(self.event_queue) is not None, self.event_queue.q_unfinished == old(self.event_queue.q_unfinished) + 1)', ['C15']),
                ('running', 'self._is_running', ['C14']),
                ('bus_invariant', BUS_INV, ['C14']),
                ('history_bound', 'implies(self.max_history_size is not None and self.max_history_size > 0, len(self.event_history) <= self.max_history_size)', ['C13']),
                ('explicit_parent_kept', 'implies(old(event.event_parent_id) is not None, event.event_parent_id == old(event.event_parent_id))', ['C09']),
                ('no_parent_outside_handler', "implies(old(event.event_parent_id) is None and ctx('current_event') is None, event.event_parent_id is None)", ['C09']),
                ('parent_is_running_handlers_event', "implies(old(event.event_parent_id) is None and ctx('current_event') is not None and ctx('current_event') is not event, "
                                                      "event.event_parent_id == ctx('current_event').event_id)", ['C09']),
                ('never_own_parent', 'implies(old(event.event_parent_id) is None, event.event_parent_id != event.event_id)', ['C09']),
                ('child_once', 'implies(' + IN_HANDLER + ', count_eq1(' + CH + ', event))', ['C09']),
                ('only_that_handlers_children', 'forall(lambda r: implies(not (' + IN_HANDLER + ") or r is not ctx('current_event').event_results[ctx('current_handler_id')], "
                                                "r.event_children == old(r.event_children)), 'EventResult')", ['C09']),
                ('children_only_grow_by_event', 'implies(' + IN_HANDLER + ', ' + CH + ' == old(' + CH + ') or ' + CH + ' == old(' + CH + ') + [event])', ['C09']),
            ],
            raises=[
                RaisesClause('RuntimeError', label='rejected_runtime', tags=['C14'], ensures=NO_TRACE),
                RaisesClause(('QueueFull', 'QueueShutDown'), label='rejected_queue', tags=['C14'], ensures=NO_TRACE),
                RaisesClause('AssertionError', label='rejected_invalid_event', tags=['C14'], ensures=NO_TRACE),
            ])
    spec.methods[('EventBus', 'dispatch')] = 'EventBus.dispatch'

    # ------------------------------------------------------------------ handler selection (C01, C07)
    # class invariant of registered handlers (established by EventBus.on's assert): plain functions have no __self__, bound methods do
    spec.type_invariants['Handler'] = ("(inspect.isfunction(x) or inspect.iscoroutinefunction(x) or inspect.ismethod(x)) and inspect.ismethod(x) == hasattr(x, '__self__')")
    spec.define('is_forward', ['h'], "hasattr(h, '__self__') and isinstance(h.__self__, EventBus) and h.__name__ == 'dispatch'")
    spec.define('hid', ['bus', 'h'], "fmt2(id(bus), id(h))")
    spec.define('forward_seen', ['event', 'h'], "is_forward(h) and h.__self__.name in event.event_path")
    spec.define('has_result', ['bus', 'event', 'h'],
                "hid(bus, h) in event.event_results and (event.event_results[hid(bus, h)].status == 'pending' or "
                "event.event_results[hid(bus, h)].status == 'started' or event.event_results[hid(bus, h)].completed_at is not None)")
    spec.define('would_skip', ['bus', 'event', 'h'], "forward_seen(event, h) or has_result(bus, event, h)", opaque=True)

    spec.fn('EventBus._handler_dispatched_ancestor', trusted=True, params={'self': 'EventBus', 'event': 'BaseEvent', 'handler_id': 'str'}, returns='int',
            allocates=False, ensures=[('nonneg', 'result >= 0', [])],
            notes='recursion-depth counter over histories (reads only); assumed total and side-effect free; its value only decides the F2 RuntimeError')
    spec.methods[('EventBus', '_handler_dispatched_ancestor')] = 'EventBus._handler_dispatched_ancestor'

    spec.fn('EventBus._would_create_loop', file=S, qual='EventBus._would_create_loop',
            params={'self': 'EventBus', 'event': 'BaseEvent', 'handler': 'Handler'}, returns='bool', allocates=False,
            requires=[('handler_is_callable', 'inspect.isfunction(handler) or inspect.iscoroutinefunction(handler) or inspect.ismethod(handler)', ['C01']),
                      ('only_methods_have_self', "inspect.ismethod(handler) == hasattr(handler, '__self__')", ['C07'])],
            ensures=[('forward_skipped_if_seen', 'implies(forward_seen(event, handler), result)', ['C07']),
                     ('already_has_result', 'implies(has_result(self, event, handler), result)', ['C01']),
                     ('otherwise_runs', 'implies(not would_skip(self, event, handler), not result)', ['C01', 'C07'])],
            raises=[RaisesClause('RuntimeError', label='recursion_guard', tags=['C01'],
                                 ensures=[('never_for_forwarding', 'not is_forward(handler)', ['C07']),
                                          ('only_if_it_would_run', 'not would_skip(self, event, handler)', ['C01'])])])
    spec.methods[('EventBus', '_would_create_loop')] = 'EventBus._would_create_loop'

    CANDS = "(self.handlers.get(event.event_type, []) + self.handlers.get('*', []))"
    spec.fn('EventBus._get_applicable_handlers', file=S, qual='EventBus._get_applicable_handlers',
            params={'self': 'EventBus', 'event': 'BaseEvent'}, returns='dict[str,Handler]', allocates=False, typed_elements=True,
            locals={'applicable_handlers': 'list[Handler]', 'filtered_handlers': 'dict[str,Handler]'},
            loops={0: {'inv': [
                ('complete', "forall(lambda j: implies(0 <= j and j < loop_i and not would_skip(self, event, applicable_handlers[j]), "
                             "hid(self, applicable_handlers[j]) in filtered_handlers and filtered_handlers[hid(self, applicable_handlers[j])] is applicable_handlers[j]))", ['C01']),
                ('sound', "forall(lambda k: implies(k in filtered_handlers, hid(self, filtered_handlers[k]) == k and not would_skip(self, event, filtered_handlers[k]) "
                          "and filtered_handlers[k] in applicable_handlers), 'str')", ['C01']),
                ('is_a_dict', 'wf_dict(filtered_handlers)', []),
            ]}},
            ensures=[
                ('no_matching_handler_skipped', "forall(lambda j: implies(0 <= j and j < len(" + CANDS + ") and not would_skip(self, event, " + CANDS + "[j]), "
                                                "hid(self, " + CANDS + "[j]) in result and result[hid(self, " + CANDS + "[j])] is " + CANDS + "[j]))", ['C01']),
                ('only_matching_handlers', "forall(lambda k: implies(k in result, hid(self, result[k]) == k and not would_skip(self, event, result[k]) "
                                           "and result[k] in " + CANDS + "), 'str')", ['C01', 'C07']),
                ('is_a_dict', 'wf_dict(result)', []),
            ],
            raises=[RaisesClause('RuntimeError', label='recursion_guard', tags=['C01'])])
    spec.methods[('EventBus', '_get_applicable_handlers')] = 'EventBus._get_applicable_handlers'

    # ------------------------------------------------------------------ interference for the bus code (A1): at a suspension point
    # any other task (other run loops, user tasks, handlers) may have called any public operation
    spec.interference['default'] = Interference('default', havoc=['*'], keep=['name', 'id', 'event_id', 'event_type', 'handler_id', '__name__', '__self__', '__class__',
                                                                                 'max_history_size', 'parallel_handlers', 'wal_path', 'q_maxsize', 'g$loop_running', 'g$current_loop', '_depth'],
                                                 rely=[('queue_identity_stable', 'implies(old(self.event_queue) is not None, self.event_queue is old(self.event_queue) and self._on_idle is old(self._on_idle))', []),
                                                       ('shutdown_is_final', "forall(lambda q: implies(old(q._is_shutdown), q._is_shutdown), 'CleanShutdownQueue')", []),
                                                       ('global_lock_is_a_singleton', 'implies(old(_global_eventbus_lock) is not None, _global_eventbus_lock is old(_global_eventbus_lock))', [])])
    spec.interference['none'] = Interference('none')
    # queue accounting (A5) as an assume-guarantee invariant: every task keeps, at its own suspension points,
    #   unfinished >= queued + (events it has taken and not yet task_done()d)
    spec.interference['runloop'] = Interference('runloop', havoc=['*'], keep=spec.interference['default'].keep, rely=spec.interference['default'].rely,
                                                 inv=[('inflight_nonneg', 'task_done_calls <= len(dequeued)', ['C15']),
                                                      ('queue_accounting', 'implies(self.event_queue is not None, self.event_queue.q_unfinished >= len(self.event_queue.q_items) + (len(dequeued) - task_done_calls))', ['C15'])])

    # ------------------------------------------------------------------ ReentrantLock (C06)
    spec.ghosts['permits_held'] = parse_ty('int')   # permits of the global lock's semaphore acquired by the current task (task-owned)
    from pyvc import models as _m

    def lock_acquire_model(ex, n, awaited, recv=None):
        sem = ex.eval(n.func.value)
        _m.sem_acquire_await(ex, sem)
        ex.ghost_set('permits_held', mk_int(ex.ghost('permits_held').term + 1))
        return mk_bool(True)

    def lock_release_model(ex, n, awaited, recv=None):
        sem = ex.eval(n.func.value)
        _m.sem_release(ex, n, awaited, sem)
        ex.ghost_set('permits_held', mk_int(ex.ghost('permits_held').term - 1))
        return mk_none()

    spec.fn('ReentrantLock._get_semaphore', file=S, qual='ReentrantLock._get_semaphore', params={'self': 'ReentrantLock'}, returns='Semaphore',
            modifies=[('_semaphore', 'self'), ('_loop', 'self')], raises=[RaisesClause('RuntimeError', label='no_loop', when='not loop_running()')],
            ensures=[('is_the_locks_semaphore', 'result is self._semaphore', ['C06']),
                     ('kept_within_one_loop', 'implies(old(self._semaphore) is not None and old(self._loop) is current_loop(), result is old(self._semaphore))', ['C06']),
                     ('one_permit', 'implies(not (old(self._semaphore) is not None and old(self._loop) is current_loop()), fresh_object(result) and result.sem_value == 1)', ['C06'])])
    spec.methods[('ReentrantLock', '_get_semaphore')] = 'ReentrantLock._get_semaphore'

    def sf_current_loop(ex):
        from pyvc.symexec import MOD
        return ex.read_field(MOD, 'g$current_loop')
    spec.specfuns['current_loop'] = sf_current_loop

    spec.fn('ReentrantLock.__aenter__', file=S, qual='ReentrantLock.__aenter__', is_async=True, params={'self': 'ReentrantLock'}, returns='ReentrantLock',
            requires=[('in_loop', 'loop_running()', [])],
            modifies=[('_depth', 'self'), ('_semaphore', 'self'), ('_loop', 'self'), ('sem_value', '*'), ('sem_loop', '*')], ghost_modifies=['permits_held'],
            ctx_modifies=['holds_global_lock'],
            callsites={'self._get_semaphore().acquire': {'model': lock_acquire_model, 'writes': ['sem_value', 'sem_loop'], 'ghost_writes': ['permits_held'], 'suspends': True}},
            ensures=[('holds', "ctx('holds_global_lock')", ['C06']),
                     ('reentrant', "implies(old(ctx('holds_global_lock')), self._depth == old(self._depth) + 1 and permits_held == old(permits_held))", ['C06']),
                     ('acquired', "implies(not old(ctx('holds_global_lock')), self._depth == 1 and permits_held == old(permits_held) + 1)", ['C06']),
                     ('returns_self', 'result is self', ['C06'])],
            raises=[RaisesClause('CancelledError', label='cancelled_while_waiting', tags=['C06'],
                                 ensures=[('holds_nothing', "permits_held == old(permits_held) and ctx('holds_global_lock') == old(ctx('holds_global_lock')) and self._depth == old(self._depth)", ['C06'])])])
    spec.methods[('ReentrantLock', '__aenter__')] = 'ReentrantLock.__aenter__'

    spec.fn('ReentrantLock.__aexit__', file=S, qual='ReentrantLock.__aexit__', is_async=True, suspends=False,
            params={'self': 'ReentrantLock', 'exc_type': 'any', 'exc_val': 'any', 'exc_tb': 'any'}, returns='NoneType',
            requires=[('in_loop', 'loop_running()', [])],
            modifies=[('_depth', 'self'), ('_semaphore', 'self'), ('_loop', 'self'), ('sem_value', '*')], ghost_modifies=['permits_held'],
            ctx_modifies=['holds_global_lock'],
            callsites={'self._get_semaphore().release': {'model': lock_release_model, 'writes': ['sem_value'], 'ghost_writes': ['permits_held']}},
            ensures=[('not_held_noop', "implies(not old(ctx('holds_global_lock')), permits_held == old(permits_held) and self._depth == old(self._depth) and not ctx('holds_global_lock'))", ['C06']),
                     ('last_exit_releases', "implies(old(ctx('holds_global_lock')) and old(self._depth) == 1, not ctx('holds_global_lock') and permits_held == old(permits_held) - 1 and self._depth == 0)", ['C06']),
                     ('inner_exit_keeps', "implies(old(ctx('holds_global_lock')) and old(self._depth) != 1, ctx('holds_global_lock') and permits_held == old(permits_held) and self._depth == old(self._depth) - 1)", ['C06'])])
    spec.methods[('ReentrantLock', '__aexit__')] = 'ReentrantLock.__aexit__'

    def lock_new(ex, n, awaited, recv=None):
        v = ex.fresh_obj('ReentrantLock', 'lock')
        ex.write_field(v.term, '_semaphore', mk_none())
        ex.write_field(v.term, '_loop', mk_none())
        ex.write_field(v.term, '_depth', mk_int(0))
        return v
    spec.builtins['ReentrantLock.__new__'] = lock_new
    spec.fn('bubus._get_global_lock', file=S, qual='_get_global_lock', params={}, returns='ReentrantLock',
            modifies=[('g$global_lock', 'MODULE')],
            ensures=[('singleton', 'result is _global_eventbus_lock', ['C06']),
                     ('kept', 'implies(old(_global_eventbus_lock) is not None, result is old(_global_eventbus_lock))', ['C06']),
                     ('fresh_depth0', 'implies(old(_global_eventbus_lock) is None, fresh_object(result) and result._depth == 0 and result._semaphore is None)', ['C06'])])

    # ------------------------------------------------------------------ run loop: _get_next_event / step / _run_loop (C02 C11 C15 C16)
    spec.ghosts['dequeued'] = parse_ty('list[BaseEvent]')   # events this task has taken off a bus queue, in order (task-owned)
    for prop in ('events_pending', 'events_started', 'events_completed'):
        spec.fn('EventBus.' + prop, file=S, qual='EventBus.' + prop, params={'self': 'EventBus'}, returns='list[BaseEvent]', spec_term='@body',
                notes='one-line view: its own comprehension, evaluated in the specification language, is its specification')
        spec.properties[('EventBus', prop)] = 'EventBus.' + prop

    IDLE = "not (self.events_pending or self.events_started or self.event_queue.qsize())"

    def idle_set_pre(ex, n):
        # the idle flag may be raised only in a state with nothing queued, pending or started
        ex.oblige('callsite:_on_idle.set/requires', 'only_when_idle', ex.spec_bool(IDLE, dict(ex.st.env)), ['C15'])

    spec.fn('EventBus._get_next_event', file=S, qual='EventBus._get_next_event', is_async=True, cancel_must_propagate=True,
            params={'self': 'EventBus', 'wait_for_timeout': 'real'}, returns='opt[BaseEvent]', interference='runloop',
            requires=[('started', 'self._on_idle is not None and self.event_queue is not None and loop_running()', [])],
            assume_asserts=['self._on_idle and self.event_queue'],
            modifies=[('q_items', '*'), ('ev_set', '*'), ('task_done', '*'), ('task_cancel_requested', '*')], ghost_modifies=['dequeued'],
            callsites={'self._on_idle.set': {'pre': idle_set_pre}},
            ensures=[('returns_what_it_dequeued', 'implies(result is not None, dequeued == old(dequeued) + [result])', ['C02', 'C01']),
                     ('none_means_nothing_kept', 'implies(result is None, dequeued == old(dequeued) or (not self._is_running and len(dequeued) == len(old(dequeued)) + 1))', ['C01', 'C14']),
                     ('only_while_running', 'implies(result is not None, self._is_running)', ['C16'])],
            exits_ensure=[('takes_at_most_one', 'len(dequeued) == len(old(dequeued)) or len(dequeued) == len(old(dequeued)) + 1', ['C02'])],
            raises=[RaisesClause('CancelledError', label='cancelled', tags=['C16'])])
    spec.methods[('EventBus', '_get_next_event')] = 'EventBus._get_next_event'

    spec.ghosts['processed'] = parse_ty('list[BaseEvent]')    # events for which this task entered process_event, in order (task-owned)
    spec.ghosts['task_done_calls'] = parse_ty('int')          # task_done() calls made by this task (task-owned)

    def task_done_model(ex, n, awaited, recv=None):
        q = ex.eval(n.func.value)
        from contracts import axioms_asyncio as ax
        ax.queue_task_done(ex, n, awaited, q)
        ex.ghost_set('task_done_calls', mk_int(ex.ghost('task_done_calls').term + 1))
        return mk_none()

    spec.ghosts['mark_attempts'] = parse_ty('int')          # calls of event_mark_complete_if_all_handlers_completed() made by process_event activations of this task
    spec.ghosts['pe_handlers_entered'] = parse_ty('int')    # process_event activations of this task that reached their handler phase
    PE_RAISES = [RaisesClause('CancelledError', label='cancelled', tags=['C10', 'C16'],
                              # C10/C03 (second witness of F5): a cancellation that interrupts the handler phase must not abandon the event with only
                              # finished results and a completion signal nobody will set: completion is attempted before the cancellation is passed on
                              ensures=[('completion_attempted_before_passing_the_cancellation_on',
                                        'implies(pe_handlers_entered > old(pe_handlers_entered), mark_attempts > old(mark_attempts))', ['C10', 'C03'])]),
                 RaisesClause('RuntimeError', label='recursion_guard', tags=['C01', 'C03', 'C11', 'C15'], origin='call:EventBus._get_applicable_handlers', caller_only=True),
                 RaisesClause('Exception', label='unexpected', caller_only=True)]
    spec.ghosts['wal_calls'] = parse_ty('int')   # _default_wal_handler activations started by this task (task-owned)

    def pe_first_stmt(ex, n):
        ex.ghost_set('processed', ex.list_append(ex.ghost('processed'), ex.st.env['event']))

    def pe_before_handlers(ex, n):
        ex.st.flags['handlers_phase'] = 'running'
        ex.ghost_set('pe_handlers_entered', mk_int(ex.ghost('pe_handlers_entered').term + 1))

    def pe_mark_count(ex, n):
        ex.ghost_set('mark_attempts', mk_int(ex.ghost('mark_attempts').term + 1))

    def pe_wal_pre(ex, n):
        # C17: exactly one append per processed event, after that event's handlers on this bus have finished
        ex.oblige('callsite:_default_wal_handler/requires', 'after_handlers_finished', z3.BoolVal(ex.st.flags.get('handlers_phase') == 'done'), ['C17'])
        ex.ghost_set('wal_calls', mk_int(ex.ghost('wal_calls').term + 1))

    def pe_pending_result_pre(ex, n):
        # C08: no handler result may be added to an event whose completion has already been signalled
        ex.oblige('callsite:event_result_update(pending)/requires', 'event_not_already_signalled', ex.spec_bool('not signalled(event)', dict(ex.st.env)), ['C08'])

    def pe_mark_pre(ex, n):
        if ast_unparse(n.func).startswith('event.'):
            ex.oblige('callsite:event_mark_complete/requires', 'after_wal_append', z3.BoolVal(bool(ex.st.flags.get('wal_done'))), ['C17'])

    import ast as _ast
    ast_unparse = _ast.unparse


    def eh_done_model(ex, n, awaited, recv=None):
        raise NotImplementedError

    spec.fn('EventBus.process_event', file=S, qual='EventBus.process_event', is_async=True, interference='process',
            params={'self': 'EventBus', 'event': 'BaseEvent', 'timeout': 'opt[real]'}, returns='NoneType', locals={'checked_ids': 'set[str]'},
            requires=[('lock_held', "ctx('holds_global_lock')", ['C06', 'C02']), ('in_loop', 'loop_running()', [])],
            modifies=[('event_results', '*'), ('status', '*'), ('result', '*'), ('error', '*'), ('started_at', '*'), ('completed_at', '*'), ('_handler_completed_signal', '*'),
                      ('ev_set', '*'), ('task_done', '*'), ('task_cancel_requested', '*'), ('event_processed_at', '*'), ('set_members', '*'), ('_event_completed_signal', '*'), ('event_history', '*')],
            ghost_modifies=['processed', 'invoked', 'eh_calls', 'spawned_tasks', 'wal_calls', 'mark_attempts', 'pe_handlers_entered', 'wal_lines', 'wal_opens', 'cancel_walk_calls'],
            callsites={'self._get_applicable_handlers': {'pre': pe_first_stmt, 'ghost_writes': ['processed']},
                       'self._execute_handlers': {'pre': pe_before_handlers, 'ghost_writes': ['pe_handlers_entered']},
                       'event.event_mark_complete_if_all_handlers_completed': {'pre': pe_mark_count, 'ghost_writes': ['mark_attempts']},
                       'self._default_log_handler': {'pre': lambda ex, n: ex.st.flags.__setitem__('handlers_phase', 'done')},
                       'self._default_wal_handler': {'pre': pe_wal_pre, 'ghost_writes': ['wal_calls']},
                       'event.event_result_update': {'pre': pe_pending_result_pre}},
            raises_tags=['C01', 'C03', 'C11', 'C15'],
            exits_ensure=[('entered_once', 'processed == old(processed) + [event]', ['C01'])],
            ensures=[('completion_propagated_to_parent', "forall(lambda p: implies(event.event_parent_id is not None and p.event_id == event.event_parent_id and len(p.event_results) > 0 and "
                                                          "all_results_terminal(p) and children_completed(p), signalled(p)), 'BaseEvent')", ['C03', 'C13']),
                     ('one_wal_append', 'wal_calls == old(wal_calls) + 1', ['C17']),
                     ('history_bound', 'implies(self.max_history_size is not None and self.max_history_size > 0, len(self.event_history) <= self.max_history_size)', ['C13'])],
            raises=PE_RAISES)
    spec.methods[('EventBus', 'process_event')] = 'EventBus.process_event'

    # whoever runs with holds_global_lock set is inside at least one `async with` of the (existing) global lock
    LOCK_INV = ('lock_depth_positive_while_held', "implies(ctx('holds_global_lock'), _global_eventbus_lock is not None and _global_eventbus_lock._depth >= 1)", ['C06'])
    SERIAL = ('serial_bus', 'not self.parallel_handlers', [])
    STARTED = ('started', 'self._on_idle is not None and self.event_queue is not None and loop_running()', [])
    spec.fn('EventBus.step', file=S, qual='EventBus.step', is_async=True,
            params={'self': 'EventBus', 'event': 'opt[BaseEvent]', 'timeout': 'opt[real]', 'wait_for_timeout': 'real'}, returns='opt[BaseEvent]',
            requires=[STARTED, LOCK_INV], assume_asserts=['self._on_idle and self.event_queue'], interference='runloop',
            modifies=[('q_items', '*'), ('q_unfinished', '*'), ('ev_set', '*'), ('task_done', '*'), ('task_cancel_requested', '*'), ('_depth', '*'),
                      ('_semaphore', '*'), ('_loop', '*'), ('sem_value', '*'), ('sem_loop', '*'), ('g$global_lock', '*'), ('event_results', '*'), ('status', '*'), ('result', '*'), ('error', '*'),
                      ('started_at', '*'), ('completed_at', '*'), ('_handler_completed_signal', '*'), ('event_processed_at', '*'), ('set_members', '*'), ('_event_completed_signal', '*'), ('event_history', '*')],
            ghost_modifies=['dequeued', 'processed', 'task_done_calls', 'permits_held', 'invoked', 'eh_calls', 'spawned_tasks', 'wal_calls', 'mark_attempts', 'pe_handlers_entered', 'wal_lines', 'wal_opens', 'cancel_walk_calls'],
            callsites={'self.event_queue.task_done': {'model': task_done_model, 'writes': ['q_unfinished'], 'ghost_writes': ['task_done_calls']}},
            exits_ensure=[
                ('no_task_done_for_a_given_event', 'implies(old(event) is not None, task_done_calls == old(task_done_calls))', ['C15']),
                ('lock_released', "permits_held == old(permits_held) and ctx('holds_global_lock') == old(ctx('holds_global_lock'))", ['C06']),
                ('takes_at_most_one', 'len(dequeued) <= len(old(dequeued)) + 1', ['C02']),
            ],
            ensures=[
                ('task_done_once_per_dequeued_event', 'implies(old(event) is None, task_done_calls - old(task_done_calls) == len(dequeued) - len(old(dequeued)) or '
                                                      '(not self._is_running and task_done_calls == old(task_done_calls)))', ['C15', 'C10']),
                ('taken_is_processed', 'implies(old(event) is None and len(dequeued) == len(old(dequeued)) + 1, (result is dequeued[len(dequeued) - 1] and processed == old(processed) + [result]) '
                                       'or (result is None and not self._is_running and processed == old(processed)))', ['C01', 'C02']),
                ('nothing_taken_nothing_processed', 'implies(old(event) is None and len(dequeued) == len(old(dequeued)), result is None and processed == old(processed))', ['C01']),
                ('given_event_processed', 'implies(old(event) is not None, result is old(event) and processed == old(processed) + [result] and dequeued == old(dequeued))', ['C01']),
            ],
            raises=[RaisesClause('CancelledError', label='cancelled_while_polling', tags=['C16'], origin='call:EventBus._get_next_event',
                                 ensures=[('no_task_done', 'task_done_calls == old(task_done_calls)', ['C15'])]),
                    RaisesClause('CancelledError', label='cancelled_with_event_in_hand', tags=['C10', 'C16'], origin='call:ReentrantLock.__aenter__', ensures=[('task_done_once_per_dequeued_event', 'implies(old(event) is None, task_done_calls - old(task_done_calls) == len(dequeued) - len(old(dequeued)) or '
                                                      '(not self._is_running and task_done_calls == old(task_done_calls)))', ['C15', 'C10'])]),
                    RaisesClause('CancelledError', label='cancelled_while_processing', tags=['C10', 'C16'], origin='call:EventBus.process_event', ensures=[('task_done_once_per_dequeued_event', 'implies(old(event) is None, task_done_calls - old(task_done_calls) == len(dequeued) - len(old(dequeued)) or '
                                                      '(not self._is_running and task_done_calls == old(task_done_calls)))', ['C15', 'C10'])]),
                    RaisesClause('RuntimeError', label='recursion_guard', tags=['C01', 'C03', 'C11', 'C15'], origin='call:EventBus.process_event/recursion_guard', ensures=[('task_done_once_per_dequeued_event', 'implies(old(event) is None, task_done_calls - old(task_done_calls) == len(dequeued) - len(old(dequeued)) or '
                                                      '(not self._is_running and task_done_calls == old(task_done_calls)))', ['C15', 'C10'])]),
                    RaisesClause('Exception', label='unexpected', origin='call:EventBus.process_event/unexpected', ensures=[('task_done_once_per_dequeued_event', 'implies(old(event) is None, task_done_calls - old(task_done_calls) == len(dequeued) - len(old(dequeued)) or '
                                                      '(not self._is_running and task_done_calls == old(task_done_calls)))', ['C15', 'C10'])])])
    spec.methods[('EventBus', 'step')] = 'EventBus.step'

    def runloop_step_pre(ex, n):
        # C16: once a CancelledError was delivered to the run-loop task, no further event is taken
        ex.oblige('callsite:step/requires', 'not_after_cancel', z3.BoolVal(not ex.st.flags.get('cancelled')), ['C16'])
        # C06: the run loop is the root of its own task tree: it must not believe it already holds the global lock,
        # nor that it is inside somebody's handler (A2: a new task copies the creator's context)
        ex.oblige('callsite:step/requires', 'root_context', ex.spec_bool("not ctx('holds_global_lock') and not ctx('inside_handler') and ctx('current_event') is None and ctx('current_handler_id') is None", dict(ex.st.env)), ['C06', 'C09', 'C02'])

    def runloop_exit(ex, outcome, result, exc):
        # C11: an Exception escaping step() (other than queue shutdown / loop closing) must not end the run loop
        last = ex.st.flags.get('last_callee_exc')
        if last and last[0] == 'EventBus.step' and last[1] in ('unexpected', 'recursion_guard'):
            t = smt.tag(last[2].term)
            ex.oblige('exit', 'exception_from_step_does_not_end_loop',
                      z3.Or(smt.issub(t, smt.CLASSES['RuntimeError']), smt.issub(t, smt.CLASSES['QueueShutDown'])), ['C11'])

    spec.fn('EventBus._run_loop', file=S, qual='EventBus._run_loop', is_async=True, params={'self': 'EventBus'}, returns='NoneType', interference='runloop',
            requires=[STARTED], ctx_modifies=['holds_global_lock', 'inside_handler', 'current_event', 'current_handler_id'],
            modifies=[('_is_running', 'self')] + [('q_items', '*'), ('q_unfinished', '*'), ('ev_set', '*'), ('task_done', '*'), ('task_cancel_requested', '*'), ('_depth', '*'),
                      ('_semaphore', '*'), ('_loop', '*'), ('sem_value', '*'), ('sem_loop', '*'), ('g$global_lock', '*'), ('event_results', '*'), ('status', '*'), ('result', '*'), ('error', '*'),
                      ('started_at', '*'), ('completed_at', '*'), ('_handler_completed_signal', '*'), ('event_processed_at', '*'), ('set_members', '*'), ('_event_completed_signal', '*'), ('event_history', '*')],
            ghost_modifies=['dequeued', 'processed', 'task_done_calls', 'permits_held', 'invoked', 'eh_calls', 'spawned_tasks', 'wal_calls', 'mark_attempts', 'pe_handlers_entered', 'wal_lines', 'wal_opens', 'cancel_walk_calls'],
            callsites={'self.step': {'pre': runloop_step_pre}, 'self._on_idle.set': {'pre': idle_set_pre}},
            exit_hook=runloop_exit,
            loops={0: {'inv': [('started', 'self._on_idle is not None and self.event_queue is not None', []),
                               ('inflight_nonneg', 'task_done_calls <= len(dequeued)', ['C15']),
                               ('queue_accounting', 'self.event_queue.q_unfinished >= len(self.event_queue.q_items) + (len(dequeued) - task_done_calls)', ['C15'])]}},
            ensures=[('stopped', 'not self._is_running', ['C16'])])

    # ------------------------------------------------------------------ results are never removed, terminal results never change (rely of every bus function;
    # its guarantee side is EventResult.update's call-site pre-condition `not already terminal`, C08)
    RESULT_RELY = [
        ('terminal_results_frozen', "forall(lambda r: implies(old(r.status) == 'completed' or old(r.status) == 'error', r.status == old(r.status) and r.error is old(r.error) "
                                    "and r.result is old(r.result) and r.completed_at is old(r.completed_at)), 'EventResult')", []),
        ('started_results_owned', "forall(lambda r: implies(old(r.status) == 'started', r.status == 'started'), 'EventResult')", []),
        ('started_at_set_once', "forall(lambda r: implies(old(r.started_at) is not None, r.started_at is old(r.started_at)), 'EventResult')", []),
        ('results_never_removed', "forall(lambda e, k: implies(k in old(e.event_results), k in e.event_results and e.event_results[k] is old(e.event_results)[k]), 'BaseEvent', 'str')", []),
        ('result_identity_fields', "forall(lambda r: r.handler_id == old(r.handler_id) and r.result_type is old(r.result_type) and r.timeout == old(r.timeout), 'EventResult')", []),
    ]
    TASK_RELY = [('a_done_task_stays_done', "forall(lambda t: implies(old(t.task_done), t.task_done), 'Task')", [])]      # asyncio (A2)
    spec.interference['handlers'] = Interference('handlers', havoc=['*'], keep=spec.interference['default'].keep + ['event_timeout', 'event_result_type'],
                                                  rely=spec.interference['default'].rely + [Clause_(c) for c in RESULT_RELY + TASK_RELY])

    # asyncio.current_task().cancelling() > 0 (A8): a cancellation of THIS task was requested - as opposed to a CancelledError raised by
    # user code. On a path of the symbolic execution that is exactly "a CancelledError was delivered at one of my suspension points".
    spec.builtins['bubus._current_task_is_being_cancelled'] = lambda ex, n, awaited, recv=None: mk_bool(bool(ex.st.flags.get('cancelled')))

    spec.ghosts['invoked'] = parse_ty('int')      # handler invocations started by this task (task-owned)

    def _is_arg_of_create_task(ex, n):
        import ast as _ast
        for c in _ast.walk(ex.fn_node):
            if isinstance(c, _ast.Call) and _ast.unparse(c.func) in ('asyncio.create_task',) and c.args and c.args[0] is n:
                return True
        return False

    INVOKE_PRE = [
        ('context_is_this_handler', "ctx('current_event') is event and ctx('inside_handler') and ctx('current_handler_id') == hid(self, handler)", ['C09']),
        ('marked_started_before_invocation', "hid(self, handler) in event.event_results and event.event_results[hid(self, handler)].started_at is not None", ['C01']),
        ('lock_held', "ctx('holds_global_lock')", ['C06']),
    ]

    def handler_pre(ex):
        for label, expr, tags in INVOKE_PRE:
            ex.oblige('callsite:handler(event)/requires', label, ex.spec_bool(expr, dict(ex.st.env)), tags)
        ex.ghost_set('invoked', mk_int(ex.ghost('invoked').term + 1))

    from pyvc import models as _models
    _async_handler = _models.user_call('handler', pre=handler_pre, raises=('Exception', 'CancelledError'))
    _sync_handler = _models.user_call('handler', pre=handler_pre, raises=('Exception',), is_async=False, sync_havoc=True)

    def handler_call_model(ex, n, awaited, recv=None):
        ex.eval(n.args[0])
        if _is_arg_of_create_task(ex, n):
            return _async_handler(ex, n, False)
        return _sync_handler(ex, n, False)

    HR = 'event.event_results[hid(self, handler)]'
    spec.fn('EventBus.execute_handler', file=S, qual='EventBus.execute_handler', is_async=True, interference='handlers',
            params={'self': 'EventBus', 'event': 'BaseEvent', 'handler': 'Handler', 'timeout': 'opt[real]'}, returns='any',
            requires=[('lock_held', "ctx('holds_global_lock')", ['C06']), ('in_loop', 'loop_running()', [])],
            modifies=[('event_results', '*'), ('status', '*'), ('result', '*'), ('error', '*'), ('started_at', '*'), ('completed_at', '*'), ('_handler_completed_signal', '*'),
                      ('ev_set', '*'), ('task_done', '*'), ('task_cancel_requested', '*')],
            ghost_modifies=['invoked', 'cancel_walk_calls'],
            callsites={'handler(event)': {'model': handler_call_model, 'ghost_writes': ['invoked'], 'suspends': True}},
            ensures=[
                ('invoked_once', 'invoked == old(invoked) + 1', ['C01']),
                ('result_recorded', "hid(self, handler) in event.event_results and (" + HR + ".status == 'completed' or " + HR + ".status == 'error') and " + HR + ".started_at is not None", ['C01', 'C12']),
            ],
            raises=[
                RaisesClause('RuntimeError', label='already_started', tags=['C01'], origin='raise@',
                             when=HR.replace('event.', 'old(event).') if False else None,
                             ensures=[('not_invoked_again', 'invoked == old(invoked)', ['C01']),
                                      ('had_started_result', "hid(self, handler) in event.event_results and " + HR + ".started_at is not None", ['C01'])]),
                RaisesClause('Exception', label='handler_error', tags=['C11'], origin='user:handler',
                             ensures=[('invoked_once', 'invoked == old(invoked) + 1', ['C01']),
                                      ('error_recorded', "hid(self, handler) in event.event_results and " + HR + ".status == 'error' and " + HR + '.error is raised and ' + HR + ".started_at is not None", ['C11'])]),
                RaisesClause('TimeoutError', label='handler_timeout', tags=['C10'], origin='raise@',
                             ensures=[('timeout_recorded', "hid(self, handler) in event.event_results and " + HR + ".status == 'error' and " + HR + '.error is raised and ' + HR + ".started_at is not None", ['C10'])]),
                RaisesClause('CancelledError', label='interrupted', tags=['C10', 'C16']),
                # a CancelledError raised by the handler itself while nobody cancelled this task: that handler's error, recorded as is
                RaisesClause('CancelledError', label='handler_raised_cancellederror', tags=['C11'], delivered=False, origin='user:handler',
                             ensures=[('error_recorded', "hid(self, handler) in event.event_results and " + HR + ".status == 'error' and " + HR + '.error is raised and ' + HR + ".started_at is not None", ['C11'])]),
                RaisesClause('ValueError', label='not_callable', origin='raise@'),
            ])
    spec.methods[('EventBus', 'execute_handler')] = 'EventBus.execute_handler'

    # ------------------------------------------------------------------ _execute_handlers (C01 C06 C10 C11), serial and parallel_handlers buses
    spec.ghosts['eh_calls'] = parse_ty('int')     # execute_handler activations started by this task (task-owned)
    spec.ghosts['spawned_tasks'] = parse_ty('list[Task]')   # tasks created by this task for coroutines under contract, in order (task-owned)

    def eh_pre(ex, n):
        ex.ghost_set('eh_calls', mk_int(ex.ghost('eh_calls').term + 1))

    def only_task_cancellation_escapes(ex, outcome, result, exc):
        # C11: an exception raised by a handler - including a CancelledError it raises itself - must not escape and skip the siblings;
        # a CancelledError may leave only if this task really was cancelled
        if outcome == 'raise':
            is_cancel = smt.issub(smt.tag(exc.exc.term), smt.CLASSES['CancelledError'])
            ex.oblige('raises', 'cancellederror_only_if_task_cancelled', z3.Implies(is_cancel, z3.BoolVal(bool(ex.st.flags.get('cancelled')))), ['C11'],
                      meta={'origin': exc.origin})

    HK = 'forall(lambda k: implies(k in handlers, hid(self, handlers[k]) == k), "str")'
    spec.fn('EventBus._execute_handlers', file=S, qual='EventBus._execute_handlers', is_async=True, interference='handlers',
            params={'self': 'EventBus', 'event': 'BaseEvent', 'handlers': 'dict[str,Handler]', 'timeout': 'opt[real]'}, returns='NoneType',
            requires=[('lock_held', "ctx('holds_global_lock')", ['C06']), ('in_loop', 'loop_running()', []),
                      ('keys_are_handler_ids', HK.replace('"str"', "'str'"), ['C01']), ('handlers_is_a_dict', 'wf_dict(handlers)', [])],
            modifies=[('event_results', '*'), ('status', '*'), ('result', '*'), ('error', '*'), ('started_at', '*'), ('completed_at', '*'), ('_handler_completed_signal', '*'),
                      ('ev_set', '*'), ('task_done', '*'), ('task_cancel_requested', '*'), ('event_processed_at', '*'), ('set_members', '*'), ('_event_completed_signal', '*')],
            ghost_modifies=['invoked', 'eh_calls', 'cancel_walk_calls', 'spawned_tasks'],
            locals={'handler_tasks': 'dict[str,tuple[Task,Handler]]'}, spawns=['EventBus.execute_handler'],
            callsites={'self.execute_handler': {'pre': eh_pre, 'ghost_writes': ['eh_calls']},
                       'asyncio.create_task': {'ghost_writes': ['spawned_tasks']}},
            loops={
                # parallel_handlers: one task per handler, in handler order, each remembered in handler_tasks ...
                'for applicable_handlers.items()#0': {'inv': [('each_once_so_far', 'eh_calls == old(eh_calls) + loop_i', ['C01']),
                            ('one_task_per_handler_so_far', 'len(spawned_tasks) == old(len(spawned_tasks)) + loop_i and len(handler_tasks) == loop_i', ['C01', 'C06', 'C11']),
                            ('keys_follow_the_handlers', 'forall(lambda j: implies(0 <= j and j < loop_i, list(handler_tasks)[j] == loop_seq[j][0]))', ['C01', 'C06', 'C11']),
                            # indexed by the position in spawned_tasks, so that the post-condition's index instantiates it directly
                            ('every_task_is_remembered', 'forall(lambda m: implies(old(len(spawned_tasks)) <= m and m < len(spawned_tasks), '
                                                         'list(handler_tasks)[m - old(len(spawned_tasks))] == loop_seq[m - old(len(spawned_tasks))][0] and '
                                                         'handler_tasks[loop_seq[m - old(len(spawned_tasks))][0]][0] is spawned_tasks[m]))', ['C06', 'C11'])]},
                # ... and every one of them is awaited to its end, whatever the earlier ones ended with
                'for handler_tasks.items()': {'inv': [('awaited_so_far_are_done', 'forall(lambda j: implies(0 <= j and j < loop_i, loop_seq[j][1][0].task_done))', ['C06', 'C11'])]},
                'for applicable_handlers.items()#1': {'inv': [('each_once_so_far', 'eh_calls == old(eh_calls) + loop_i', ['C01'])]}},
            exit_hook=only_task_cancellation_escapes,
            ensures=[('each_handler_executed_once', 'eh_calls == old(eh_calls) + len(handlers)', ['C01', 'C11', 'C10']),
                     # C06/C11: the caller releases the global lock and completes the event after this returns: no handler task may still run
                     ('no_handler_task_left_running', 'forall(lambda j: implies(old(len(spawned_tasks)) <= j and j < len(spawned_tasks), spawned_tasks[j].task_done))', ['C06', 'C11', 'C01'])],
            raises=[RaisesClause('CancelledError', label='task_cancelled', tags=['C16'])])
    spec.methods[('EventBus', '_execute_handlers')] = 'EventBus._execute_handlers'

    spec.fn('EventBus._default_log_handler', file=S, qual='EventBus._default_log_handler', is_async=True, suspends=False, params={'self': 'EventBus', 'event': 'BaseEvent'}, returns='NoneType', allocates=False)
    spec.methods[('EventBus', '_default_log_handler')] = 'EventBus._default_log_handler'
    # ------------------------------------------------------------------ write-ahead log (C17); file system = arbitrary fault sequences
    spec.ghosts['wal_lines'] = parse_ty('list[str]')    # texts handed to file.write() on the WAL file by this task, in order
    spec.ghosts['wal_opens'] = parse_ty('int')

    def io_may_fail(name, suspends=False, result=None):
        def model(ex, n, awaited, recv=None):
            for a in n.args:
                ex.eval(a)
            if suspends:
                ex.suspend('io:' + name)
            if ex.choice([None, None], 'io:' + name + ' ok/fails') == 1:
                from pyvc.core import RaiseSig
                raise RaiseSig(ex.fresh_exc('Exception', base='ioerror'), 'io:' + name)
            return result(ex, n) if result else mk_none()
        return model

    def dump_json_result(ex, n):
        f = z3.Function('model_dump_json', Ref, Ref)
        ev = ex.st.env['event']
        t = f(ev.term)
        ex.assume(Ref.is_str(t))
        return V(parse_ty('str'), t)

    def open_file_model(ex, n, awaited, recv=None):
        mode = ex.eval(n.args[1]) if len(n.args) > 1 else None
        ex.oblige('callsite:anyio.open_file/requires', 'append_mode', mode is not None and ex.eq(mode, models.mk_str('a')), ['C17'])
        ex.oblige('callsite:anyio.open_file/requires', 'the_configured_wal_path', ex.eq(ex.eval(n.args[0]), ex.read_field(ex.st.env['self'].term, 'wal_path')), ['C17'])
        ex.ghost_set('wal_opens', mk_int(ex.ghost('wal_opens').term + 1))
        ex.suspend('io:open_file')
        if ex.choice([None, None], 'io:open ok/fails') == 1:
            from pyvc.core import RaiseSig
            raise RaiseSig(ex.fresh_exc('Exception', base='ioerror'), 'io:open_file')
        return V(PY, py=('cm', 'anyio_file', {}))

    def file_enter(ex, v):
        return V(PY, py=('file', {}))

    def file_exit(ex, v, sig):
        from pyvc.core import RaiseSig as _RS
        if isinstance(sig, _RS) and ex.st.flags.get('cancelled'):
            return sig     # assumption: a failing close() does not replace a cancellation that is already propagating
        ex.suspend('io:close')
        if ex.choice([None, None], 'io:close ok/fails') == 1:
            from pyvc.core import RaiseSig
            return RaiseSig(ex.fresh_exc('Exception', base='ioerror'), 'io:close')
        return sig

    def file_write(ex, n, awaited, recv):
        text = ex.eval(n.args[0])
        ex.ghost_set('wal_lines', ex.list_append(ex.ghost('wal_lines'), text))
        ex.suspend('io:write')
        if ex.choice([None, None], 'io:write ok/fails') == 1:
            from pyvc.core import RaiseSig
            raise RaiseSig(ex.fresh_exc('Exception', base='ioerror'), 'io:write')
        return mk_int(0)

    spec.builtins['anyio.open_file'] = open_file_model
    spec.builtins['cm:anyio_file'] = {'enter': file_enter, 'exit': file_exit}
    spec.builtins['py:file.write'] = file_write
    spec.methods[('*', 'model_dump_json')] = io_may_fail('model_dump_json', result=dump_json_result)

    def sf_json_line(ex, e):
        f = z3.Function('model_dump_json', Ref, Ref)
        c = z3.Function('str_concat', Ref, Ref, Ref)
        return V(parse_ty('str'), c(f(e.term), smt.strlit('\n')))
    spec.specfuns['json_line'] = sf_json_line

    spec.fn('EventBus._default_wal_handler', file=S, qual='EventBus._default_wal_handler', is_async=True, interference='process',
            params={'self': 'EventBus', 'event': 'BaseEvent'}, returns='NoneType', ghost_modifies=['wal_lines', 'wal_opens'], cancel_must_propagate=True,
            callsites={'self.wal_path.parent.mkdir': {'model': io_may_fail('mkdir')}},
            exits_ensure=[('no_wal_path_no_io', 'implies(self.wal_path is None, wal_lines == old(wal_lines) and wal_opens == old(wal_opens))', ['C17']),
                          ('at_most_one_line_and_it_is_the_event', 'wal_lines == old(wal_lines) or wal_lines == old(wal_lines) + [json_line(event)]', ['C17']),
                          ('at_most_one_open', 'wal_opens <= old(wal_opens) + 1', ['C17'])],
            raises=[RaisesClause('CancelledError', label='cancelled', tags=['C17'])])
    spec.methods[('EventBus', '_default_wal_handler')] = 'EventBus._default_wal_handler'

    spec.interference['process'] = Interference('process', havoc=['*'], keep=spec.interference['handlers'].keep, rely=spec.interference['handlers'].rely,
                                                 inv=spec.interference['runloop'].inv)

    # ------------------------------------------------------------------ on() / expect() (C18)
    spec.define('event_key', ['p'], "'*' if p == '*' else (p.__name__ if isinstance(p, type) else str(p))")
    spec.defaultdict_fields = {'handlers'}
    spec.fn('EventBus.on', file=S, qual='EventBus.on', params={'self': 'EventBus', 'event_pattern': 'any', 'handler': 'Handler'}, returns='NoneType',
            modifies=[('handlers', 'self')],
            ensures=[('appended_under_its_key', "event_key(event_pattern) in self.handlers and self.handlers[event_key(event_pattern)] == "
                                                "(old(self.handlers)[event_key(event_pattern)] if event_key(event_pattern) in old(self.handlers) else []) + [handler]", ['C18', 'C01']),
                     ('other_keys_untouched', "forall(lambda k: implies(k != event_key(event_pattern), (k in self.handlers) == (k in old(self.handlers)) and "
                                              "implies(k in self.handlers, self.handlers[k] == old(self.handlers)[k])), 'str')", ['C18'])],
            raises=[RaisesClause(('AssertionError', 'TypeError'), label='invalid_pattern_or_handler', ensures=[('nothing_registered', 'self.handlers == old(self.handlers)', ['C18'])])])
    spec.methods[('EventBus', 'on')] = 'EventBus.on'

    spec.ghosts['expect_handler'] = parse_ty('any')    # the temporary handler registered by the expect() call in progress (task-owned)

    def expect_on_pre(ex, n):
        ex.ghost_set('expect_handler', coerce(ex.eval(n.args[1]), ANY))

    KEY = 'event_key(event_type)'
    MINE = lambda h: "(" + KEY + " in " + h + " and expect_handler in " + h + "[" + KEY + "])"
    spec.interference['expect'] = Interference('expect', havoc=['*'], keep=spec.interference['default'].keep,
        rely=[('others_do_not_touch_my_subscription', MINE('self.handlers') + " == " + MINE('old(self.handlers)'), []),
              ('my_handler_listed_at_most_once', "implies(" + KEY + " in self.handlers, count_le1(self.handlers[" + KEY + "], expect_handler))", [])])

    spec.specfuns['allocated_at_entry'] = lambda ex, x: mk_bool(ex.is_alloc(x.term, ex.entry['now']))
    spec.builtins['inspect.currentframe'] = lambda ex, n, awaited, recv=None: ex.fresh_obj('Frame', 'frame')

    spec.fn('EventBus.expect', file=S, qual='EventBus.expect', is_async=True, interference='expect', cancel_must_propagate=True,
            params={'self': 'EventBus', 'event_type': 'any', 'include': 'any', 'exclude': 'any', 'predicate': 'any', 'timeout': 'opt[real]'}, returns='BaseEvent',
            requires=[('in_loop', 'loop_running()', []),
                      ('type_is_name_or_class', "isinstance(event_type, str) or isinstance(event_type, type)", []),
                      ('registered_handlers_already_exist', "implies(" + KEY + " in self.handlers, forall(lambda i: implies(0 <= i and i < len(self.handlers[" + KEY + "]), "
                                                            "allocated_at_entry(self.handlers[" + KEY + "][i]))))", [])],
            assume_asserts=['current_frame'],
            modifies=[('handlers', 'self'), ('fut_done', '*'), ('fut_result', '*'), ('__name__', '*'), ('task_done', '*')], ghost_modifies=['expect_handler'],
            callsites={'self.on': {'pre': expect_on_pre, 'ghost_writes': ['expect_handler']}},
            exits_ensure=[('unsubscribed_on_every_exit', "not " + MINE('self.handlers'), ['C18'])],
            raises=[RaisesClause('TimeoutError', label='no_match_in_time', when='timeout is not None', tags=['C18'], origin='asyncio.wait_for'),
                    RaisesClause('CancelledError', label='cancelled', tags=['C18']),
                    RaisesClause(('AssertionError', 'TypeError'), label='invalid_pattern', origin='call:EventBus.on')])

    inc = z3.Function('user_include', Ref, Ref, z3.BoolSort())

    def user_pred(which):
        def model(ex, n, awaited, recv=None):
            f = ex.lookup(which)
            e = ex.eval(n.args[0])
            if ex.choice([None, None], which + ' returns/raises') == 1:
                from pyvc.core import RaiseSig
                raise RaiseSig(ex.fresh_exc('Exception', base='predicate_error'), 'user:' + which)
            return mk_bool(inc(coerce(f, ANY).term, e.term))
        return model

    def sf_holds(ex, f, e):
        return mk_bool(inc(coerce(f, ANY).term, e.term))
    spec.specfuns['holds'] = sf_holds

    spec.fn('EventBus.expect.notify', file=S, qual='EventBus.expect.<locals>.notify_expect_handler', params={'event': 'BaseEvent'}, returns='NoneType',
            free={'future': 'Future', 'include': 'any', 'exclude': 'any'},
            modifies=[('fut_done', 'future'), ('fut_result', 'future')],
            callsites={'include(event)': {'model': user_pred('include')}, 'exclude(event)': {'model': user_pred('exclude')}},
            exits_ensure=[('resolves_only_with_a_matching_event', 'implies(future.fut_done and not old(future.fut_done), holds(include, event) and not holds(exclude, event) and future.fut_result is event)', ['C18']),
                          ('first_match_wins', 'implies(old(future.fut_done), future.fut_done and future.fut_result is old(future.fut_result))', ['C18'])],
            ensures=[('resolves_with_first_match', 'implies(not old(future.fut_done) and holds(include, event) and not holds(exclude, event), future.fut_done and future.fut_result is event)', ['C18'])],
            raises=[RaisesClause('Exception', label='predicate_raised', origin='user:', tags=['C18'])])

    # ------------------------------------------------------------------ wait_until_idle / stop (C15 C16)
    def bounded_wait_pre(ex, n):
        # C16: when the caller gave a timeout, every wait inside is bounded by a (remaining) timeout
        from pyvc.models import kw as _kw
        t = _kw(n, 'timeout')
        tv = ex.eval(t) if t is not None else mk_none()
        given = ex.lookup('timeout')
        bounded = z3.BoolVal(True) if tv.ty.kind != 'obj' else tv.term != NONE
        ex.oblige('callsite:asyncio.wait_for/requires', 'bounded_when_timeout_given', z3.Or(given.term == NONE, bounded) if given.ty.kind == 'obj' else bounded, ['C16'])

    spec.builtins['asyncio.get_event_loop'] = spec.builtins['asyncio.get_running_loop']
    IDLE_AT_RETURN = 'self._on_idle is not None and self._on_idle.ev_set and not self.events_started and not self.events_pending'
    spec.fn('EventBus.wait_until_idle', file=S, qual='EventBus.wait_until_idle', is_async=True, interference='default', cancel_must_propagate=True,
            params={'self': 'EventBus', 'timeout': 'opt[real]'}, returns='NoneType',
            requires=[('in_loop', 'loop_running()', []), ('bus_invariant', BUS_INV, [])],
            modifies=[('event_queue', 'self'), ('_on_idle', 'self'), ('_runloop_task', 'self'), ('_is_running', 'self'), ('ev_set', '*'), ('task_done', '*'), ('g$clock', '*'),
                      ('q_items', '*'), ('q_unfinished', '*'), ('q_maxsize', '*'), ('_is_shutdown', '*'), ('task_cancel_requested', '*')],
            callsites={'asyncio.wait_for': {'pre': bounded_wait_pre}},
            loops={0: {'inv': [('no_timeout_no_deadline', 'implies(timeout is None, remaining_timeout is None)', ['C15']),
                               ('deadline_kept', 'implies(timeout is not None, remaining_timeout is not None)', ['C16']),
                               ('started', 'self._on_idle is not None and self.event_queue is not None', [])]}},
            exits_ensure=[('queue_kept', 'implies(old(self.event_queue) is not None, self.event_queue is old(self.event_queue) and self._on_idle is old(self._on_idle))', ['C15'])],
            ensures=[('idle_at_return', 'implies(timeout is None, ' + IDLE_AT_RETURN + ')', ['C15'])],
            raises=[RaisesClause('CancelledError', label='cancelled', tags=['C16'])])
    spec.methods[('EventBus', 'wait_until_idle')] = 'EventBus.wait_until_idle'

    spec.fn('CleanShutdownQueue.shutdown', file=S, qual='CleanShutdownQueue.shutdown', trusted=True, params={'self': 'CleanShutdownQueue', 'immediate': 'bool'}, returns='NoneType',
            modifies=[('_is_shutdown', 'self')], ensures=[('shut', 'self._is_shutdown', ['C16'])], allocates=False,
            notes='sets the shutdown flag and fails the futures of blocked getters/putters with QueueShutDown (asyncio.Queue internals); assumed')
    spec.methods[('CleanShutdownQueue', 'shutdown')] = 'CleanShutdownQueue.shutdown'
    spec.fn('EventBus._check_total_memory_usage', file=S, qual='EventBus._check_total_memory_usage', trusted=True, params={'self': 'EventBus'}, returns='NoneType',
            raises=[RaisesClause('Exception', label='diagnostic_failed')], allocates=False,
            notes='diagnostic (sizes of histories and queues, a warning above 50 MB); reads only; may raise, every caller catches Exception')
    spec.methods[('EventBus', '_check_total_memory_usage')] = 'EventBus._check_total_memory_usage'
    spec.builtins['py:weakset.discard'] = null_model
    spec.builtins['py:weakset.add'] = null_model

    def stop_wait_pre(ex, n):
        from pyvc.models import kw as _kw
        t = _kw(n, 'timeout')
        tv = ex.eval(t) if t is not None else mk_none()
        ex.oblige('callsite:%s/requires' % _ast.unparse(n.func), 'bounded_wait', z3.BoolVal(True) if tv.ty.kind != 'obj' else tv.term != NONE, ['C16'])

    spec.fn('EventBus.stop', file=S, qual='EventBus.stop', is_async=True, interference='default', cancel_must_propagate=True,
            params={'self': 'EventBus', 'timeout': 'opt[real]', 'clear': 'bool'}, returns='NoneType',
            requires=[('in_loop', 'loop_running()', []), ('bus_invariant', BUS_INV, [])],
            modifies=[('event_queue', 'self'), ('_on_idle', 'self'), ('_runloop_task', 'self'), ('_is_running', 'self'), ('ev_set', '*'), ('task_done', '*'), ('g$clock', '*'),
                      ('q_items', '*'), ('q_unfinished', '*'), ('q_maxsize', '*'), ('_is_shutdown', '*'), ('task_cancel_requested', '*'), ('event_history', 'self'), ('handlers', 'self')],
            callsites={'self.wait_until_idle': {'pre': stop_wait_pre}, 'asyncio.wait': {'pre': stop_wait_pre},
                       'loop._eventbus_instances.discard': {'model': null_model}},
            ensures=[('queue_shut_down', 'implies(old(self._is_running) and self.event_queue is not None, self.event_queue._is_shutdown)', ['C16']),
                     ('idle_flag_raised', 'implies(old(self._is_running) and self._on_idle is not None, self._on_idle.ev_set)', ['C16']),
                     ('task_forgotten', 'implies(old(self._is_running), self._runloop_task is None)', ['C16'])],
            raises=[RaisesClause('CancelledError', label='cancelled', tags=['C16'])])
    spec.methods[('EventBus', 'stop')] = 'EventBus.stop'

    # ------------------------------------------------------------------ loop-close hook installed by _start (C16: "loop shutdown terminates the bus")
    def original_close_model(ex, n, awaited, recv=None):
        return mk_none()
    spec.fn('EventBus._start.close_hook', file=S, qual='EventBus._start.<locals>.close_with_cleanup', params={}, returns='NoneType',
            free={'registered_eventbuses': 'list[EventBus]', 'original_close': 'any'},
            modifies=[('_is_running', '*'), ('_is_shutdown', '*'), ('task_cancel_requested', '*')],
            callsites={'original_close': {'model': original_close_model}},
            loops={0: {'inv': [('stopped_so_far', "forall(lambda j: implies(0 <= j and j < loop_i, not loop_seq[j]._is_running))", ['C16']),
                               ('only_stops', "forall(lambda b: implies(not loop_old(b._is_running), not b._is_running), 'EventBus')", ['C16'])]}},
            ensures=[('every_registered_bus_is_stopped', "forall(lambda j: implies(0 <= j and j < len(registered_eventbuses), not registered_eventbuses[j]._is_running))", ['C16'])],
            notes='the WeakSet of buses registered on the loop is read as a list snapshot (list(registered_eventbuses) in the real code)')
