"""C12, second half: the result accessors are pure views of the recorded results, in handler order.

`event_results_filtered` is the one place where include / raise_if_any / raise_if_none are interpreted; the other accessors wrap
it. Its view post-conditions are stated over the event's `event_results` dict at return (there is no suspension point after the
comprehensions are evaluated):

  exactly_the_included_results     k in result  <=>  k in event_results and include(event_results[k])
  values_are_the_recorded_results  result[k] is event_results[k]
  in_handler_order                 the keys of result appear in the order they have in event_results

`pos(d, k)` is the insertion position of key k in dict d (A10: dicts are insertion ordered)."""
from __future__ import annotations

import z3

from pyvc.spec import Clause, RaisesClause, Spec
from pyvc.values import INT, V, mk_int, to_smt, coerce


def sf_pos(ex, d, k):
    keys, n, has, val, idx = ex.dict_parts(d)
    return mk_int(z3.Select(idx, to_smt(coerce(k, d.ty.args[0]))))


ER = 'self.event_results'
INCLUDED = lambda k: "(" + k + " in " + ER + " and holds(include, " + ER + "[" + k + "]))"
IS_ERR = lambda r: "(" + r + ".error is not None or isinstance(" + r + ".result, BaseException))"

VIEW = [
    ('exactly_the_included_results', "forall(lambda k: (k in result) == " + INCLUDED('k') + ", 'str')", ['C12']),
    ('values_are_the_recorded_results', "forall(lambda k: implies(k in result, result[k] is " + ER + "[k]), 'str')", ['C12']),
    ('in_handler_order', "forall(lambda k1, k2: implies(k1 in result and k2 in result, (pos(result, k1) < pos(result, k2)) == (pos(" + ER + ", k1) < pos(" + ER + ", k2))), 'str', 'str')", ['C12']),
    ('is_a_dict', 'wf_dict(result)', []),
]

RAISE_VIEW = [
    # raise_if_any: the object raised is the recorded error (or returned exception object) of the FIRST failing result in handler order
    ('first_recorded_error_is_raised_as_is',
     "implies(raise_if_any and exists(lambda k: k in " + ER + " and " + IS_ERR(ER + '[k]') + ", 'str'), "
     "exists(lambda k: k in " + ER + " and " + IS_ERR(ER + '[k]') + " and (raised is " + ER + "[k].error or (" + ER + "[k].error is None and raised is " + ER + "[k].result)) and "
     "forall(lambda k2: implies(k2 in " + ER + " and pos(" + ER + ", k2) < pos(" + ER + ", k), not " + IS_ERR(ER + '[k2]') + "), 'str'), 'str'))", ['C11', 'C12']),
    # raise_if_none: ValueError exactly when nothing is included (and no error had to be raised first)
    ('value_error_only_if_nothing_included',
     "implies(not (raise_if_any and exists(lambda k: k in " + ER + " and " + IS_ERR(ER + '[k]') + ", 'str')), "
     "isinstance(raised, ValueError) and raise_if_none and not exists(lambda k: " + INCLUDED('k') + ", 'str'))", ['C12']),
]


LV = 'last_view'
VIEW_OF_LAST = [
    ('view_is_exactly_the_included_results', "forall(lambda k: (k in last_view) == " + INCLUDED('k') + ", 'str')", ['C12']),
    ('view_values_are_the_recorded_results', "forall(lambda k: implies(k in last_view, last_view[k] is " + ER + "[k]), 'str')", ['C12']),
    ('view_in_handler_order', "forall(lambda k1, k2: implies(k1 in last_view and k2 in last_view, (pos(last_view, k1) < pos(last_view, k2)) == (pos(" + ER + ", k1) < pos(" + ER + ", k2))), 'str', 'str')", ['C12']),
]

WRAPPER_PARAMS = {'self': 'BaseEvent', 'timeout': 'opt[real]', 'include': 'any', 'raise_if_any': 'bool', 'raise_if_none': 'bool'}


def set_view(ex, n, r):
    ex.ghost_set('last_view', V(r.ty, r.term))


def install_wrappers(spec: Spec):
    """The accessors built on event_results_filtered: each is stated as a map over `last_view` - the dict the inner call returned
    (ghost, set at the call site) - and re-exports that this dict is exactly the included view of the recorded results."""
    from pyvc.values import parse_ty
    M = 'bubus/models.py'
    F = spec.functions['BaseEvent.event_results_filtered']
    spec.ghosts['last_view'] = parse_ty('dict[str,EventResult]')
    # the wrappers pass the inner accessor's exceptions on unchanged: same clauses, raised at the inner call
    raises = [RaisesClause(rc.cls, when=rc.when, ensures=[(c.label, c.expr, list(c.tags)) for c in rc.ensures], label=rc.label, tags=rc.tags,
                           origin='call:BaseEvent.event_results_filtered/' + rc.label, delivered=rc.delivered)
              for rc in F.raises if not rc.caller_only]
    common = dict(file=M, is_async=True, interference='results', requires=[('in_loop', 'loop_running()', [])],
                  modifies=[(c[0], c[1]) for c in F.modifies], ghost_modifies=['last_view'],
                  callsites={'self.event_results_filtered': {'post': set_view}}, raises=raises)

    def fn(name, returns, ensures, locals_, **kw):
        key = 'BaseEvent.' + name
        spec.fn(key, qual=key, params=dict(WRAPPER_PARAMS), returns=returns, locals=locals_,
                ensures=VIEW_OF_LAST + ensures, **dict(common, **kw))
        spec.methods[('BaseEvent', name)] = key

    fn('event_results_by_handler_id', 'dict[str,any]',
       [('one_entry_per_included_result', "forall(lambda k: (k in result) == (k in last_view), 'str')", ['C12']),
        ('values_are_the_recorded_values', "forall(lambda k: implies(k in result, result[k] is last_view[k].result), 'str')", ['C12']),
        ('in_view_order', "forall(lambda k1, k2: implies(k1 in result and k2 in result, (pos(result, k1) < pos(result, k2)) == (pos(last_view, k1) < pos(last_view, k2))), 'str', 'str')", ['C12'])],
       {'included_results': 'dict[str,EventResult]'})
    fn('event_results_list', 'list[any]',
       [('one_value_per_included_result', 'len(result) == len(last_view)', ['C12']),
        ('values_in_view_order', 'forall(lambda i: implies(0 <= i and i < len(result), result[i] is last_view[list(last_view)[i]].result))', ['C12'])],
       {'valid_results': 'dict[str,EventResult]'})
    fn('event_result', 'any',
       [('none_if_nothing_included', 'implies(len(last_view) == 0, result is None)', ['C12']),
        ('first_included_value', 'implies(len(last_view) > 0, result is last_view[list(last_view)[0]].result)', ['C12'])],
       {'valid_results': 'dict[str,EventResult]', 'results': 'list[EventResult]'})
    fn('event_results_by_handler_name', 'dict[str,any]',
       [('every_included_result_is_listed_under_its_handler_name', "forall(lambda k: implies(k in last_view, last_view[k].handler_name in result and result[last_view[k].handler_name] is last_view[k].result), 'str')", ['C12']),
        ('one_entry_per_included_result', 'len(result) == len(last_view)', ['C12'])],
       {'included_results': 'dict[str,EventResult]'})


def install_flat_list(spec: Spec):
    """event_results_flat_list: the concatenation, in handler order, of the list values of the included results.
    A list value of type Any is an object with the heap field list_items; ghost flat_offsets[j] = len(merged) before the j-th extend."""
    from pyvc.values import parse_ty, mk_int
    M = 'bubus/models.py'
    F = spec.functions['BaseEvent.event_results_filtered']
    spec.field('list_items', 'list[any]')
    spec.ghosts['flat_offsets'] = parse_ty('list[int]')
    raises = [RaisesClause(rc.cls, when=rc.when, ensures=[], label=rc.label, tags=rc.tags,
                           origin='call:BaseEvent.event_results_filtered/' + rc.label, delivered=rc.delivered)
              for rc in F.raises if not rc.caller_only]

    def extend_pre(ex, n):
        cur = ex.lookup('merged_results')
        ex.ghost_set('flat_offsets', ex.list_append(ex.ghost('flat_offsets'), mk_int(ex.list_len(cur))))

    def include_pure(ex, n):
        f = ex.lookup('include')
        r = ex.eval(n.args[0])
        return spec.specfuns['holds'](ex, f, r)

    O0 = 'old(len(flat_offsets))'
    ITEMS = lambda j: 'loop_seq[' + j + '].result.list_items'
    VITEMS = lambda j: 'last_view[list(last_view)[' + j + ']].result.list_items'
    LIST_INCLUDED = lambda k: "(" + k + " in " + ER + " and isinstance(" + ER + "[" + k + "].result, list) and holds(include, " + ER + "[" + k + "]))"
    key = 'BaseEvent.event_results_flat_list'
    spec.fn(key, file=M, qual=key, is_async=True, interference='results', params=dict(WRAPPER_PARAMS), returns='list[any]',
            requires=[('in_loop', 'loop_running()', [])],
            modifies=[(c[0], c[1]) for c in F.modifies], ghost_modifies=['last_view', 'flat_offsets'],
            locals={'valid_results': 'dict[str,EventResult]', 'merged_results': 'list[any]'},
            callsites={'self.event_results_filtered': {'post': set_view}, 'merged_results.extend': {'pre': extend_pre, 'ghost_writes': ['flat_offsets']},
                       'include(event_result)': {'pure': include_pure}},
            loops={0: {'inv': [
                ('one_offset_per_result_so_far', 'len(flat_offsets) == ' + O0 + ' + loop_i', []),
                ('segments_are_contiguous', "forall(lambda j: implies(0 <= j and j < loop_i, flat_offsets[" + O0 + " + j] == (0 if j == 0 else flat_offsets[" + O0 + " + j - 1] + len(" + ITEMS('j - 1') + "))))", ['C12']),
                ('merged_ends_after_the_last_segment', "len(merged_results) == (0 if loop_i == 0 else flat_offsets[" + O0 + " + loop_i - 1] + len(" + ITEMS('loop_i - 1') + "))", ['C12']),
                ('offsets_within_the_list', "forall(lambda j: implies(0 <= j and j < loop_i, 0 <= flat_offsets[" + O0 + " + j] and flat_offsets[" + O0 + " + j] + len(" + ITEMS('j') + ") <= len(merged_results)))", []),
                ('segments_hold_the_values_in_place', "forall(lambda j, i: implies(0 <= j and j < loop_i and 0 <= i and i < len(" + ITEMS('j') + "), "
                                                      "merged_results[flat_offsets[" + O0 + " + j] + i] is " + ITEMS('j') + "[i]), 'int', 'int')", ['C12']),
            ]}},
            ensures=[
                ('view_is_exactly_the_included_list_results', "forall(lambda k: (k in last_view) == " + LIST_INCLUDED('k') + ", 'str')", ['C12']),
                VIEW_OF_LAST[1], VIEW_OF_LAST[2],
                ('one_segment_per_included_result', 'len(flat_offsets) == ' + O0 + ' + len(last_view)', ['C12']),
                ('segments_are_contiguous_from_zero', "forall(lambda j: implies(0 <= j and j < len(last_view), flat_offsets[" + O0 + " + j] == (0 if j == 0 else flat_offsets[" + O0 + " + j - 1] + len(" + VITEMS('j - 1') + "))))", ['C12']),
                ('nothing_after_the_last_segment', "len(result) == (0 if len(last_view) == 0 else flat_offsets[" + O0 + " + len(last_view) - 1] + len(" + VITEMS('len(last_view) - 1') + "))", ['C12']),
                ('each_segment_is_that_results_list', "forall(lambda j, i: implies(0 <= j and j < len(last_view) and 0 <= i and i < len(" + VITEMS('j') + "), "
                                                      "result[flat_offsets[" + O0 + " + j] + i] is " + VITEMS('j') + "[i]), 'int', 'int')", ['C12']),
            ],
            raises=raises)
    spec.methods[('BaseEvent', 'event_results_flat_list')] = key


def install_flat_dict(spec: Spec):
    """event_results_flat_dict: the union, last writer wins, of the dict values of the included dict-valued results; with
    raise_if_conflicts no key may come from two results. A dict value of type Any is an object of class dict with the heap field
    dict_items. Key ORDER of the merged dict is not stated."""
    from pyvc.values import parse_ty, mk_bool, STR, Ty
    from pyvc import smt
    M = 'bubus/models.py'
    F = spec.functions['BaseEvent.event_results_filtered']
    spec.field('dict_items', 'dict[str,any]')
    spec.specfuns['truthy'] = lambda ex, x: mk_bool(ex.truth(x))
    raises = [RaisesClause(rc.cls, when=rc.when, ensures=[], label=rc.label, tags=rc.tags,
                           origin='call:BaseEvent.event_results_filtered/' + rc.label, delivered=rc.delivered)
              for rc in F.raises if not rc.caller_only]

    def include_pure(ex, n):
        return spec.specfuns['holds'](ex, ex.lookup('include'), ex.eval(n.args[0]))

    def key_view(ex, d):
        k = z3.Const('kv!%d' % ex.counter('kv'), STR.sort())
        return V(Ty('set', (STR,)), z3.Lambda([k], ex.dict_has_term(d, k)))

    def merged_keys(ex, n, awaited, recv=None):
        return key_view(ex, ex.refresh(ex.lookup('merged_results')))

    def result_keys(ex, n, awaited, recv=None):
        r = ex.eval(n.func.value)                       # event_result.result : Any
        ex.safety('AttributeError', smt.issub(smt.tag(r.term), smt.CLASSES['dict']), 'keys_of_non_dict')
        return key_view(ex, ex.read_field(r.term, 'dict_items'))

    D = lambda j: 'loop_seq[' + j + '].result.dict_items'
    VD = lambda j: 'last_view[list(last_view)[' + j + ']].result.dict_items'
    DICT_INCLUDED = lambda k: "(" + k + " in " + ER + " and isinstance(" + ER + "[" + k + "].result, dict) and holds(include, " + ER + "[" + k + "]))"

    def clauses(target, Dj, n, tags):
        return [
            ('keys_are_the_union', "forall(lambda key: (key in %s) == exists(lambda j: 0 <= j and j < %s and key in %s, 'int'), 'str')" % (target, n, Dj('j')), tags),
            ('last_writer_wins', "forall(lambda key, j: implies(0 <= j and j < %s and key in %s and forall(lambda j2: implies(j < j2 and j2 < %s, key not in %s), 'int'), "
                                 "%s[key] is %s[key]), 'str', 'int')" % (n, Dj('j'), n, Dj('j2'), target, Dj('j')), tags),
            ('no_key_from_two_results_if_conflicts_forbidden', "implies(raise_if_conflicts, forall(lambda key, j1, j2: implies(0 <= j1 and j1 < j2 and j2 < %s, "
                                                               "not (key in %s and key in %s)), 'str', 'int', 'int'))" % (n, Dj('j1'), Dj('j2')), tags),
        ]

    key = 'BaseEvent.event_results_flat_dict'
    params = dict(WRAPPER_PARAMS)
    params['raise_if_conflicts'] = 'bool'
    spec.fn(key, file=M, qual=key, is_async=True, interference='results', params=params, returns='dict[str,any]',
            requires=[('in_loop', 'loop_running()', [])],
            any_containers=True,
            modifies=[(c[0], c[1]) for c in F.modifies], ghost_modifies=['last_view'],
            locals={'valid_results': 'dict[str,EventResult]', 'merged_results': 'dict[str,any]', 'overlapping_keys': 'set[str]'},
            callsites={'self.event_results_filtered': {'post': set_view}, 'include(event_result)': {'pure': include_pure},
                       'merged_results.keys': {'model': merged_keys}, 'event_result.result.keys': {'model': result_keys}},
            loops={0: {'inv': clauses('merged_results', D, 'loop_i', ['C12']) + [('merged_is_a_dict', 'wf_dict(merged_results)', [])]}},
            ensures=[('view_is_exactly_the_included_dict_results', "forall(lambda k: (k in last_view) == " + DICT_INCLUDED('k') + ", 'str')", ['C12']),
                     VIEW_OF_LAST[1], VIEW_OF_LAST[2]] + clauses('result', VD, 'len(last_view)', ['C12']),
            raises=raises + [RaisesClause('ValueError', label='conflicting_keys', origin='raise@', tags=['C12'],
                                          ensures=[('only_if_forbidden_and_a_key_repeats', "raise_if_conflicts and exists(lambda key, j1, j2: 0 <= j1 and j1 < j2 and j2 < len(last_view) and "
                                                                                          "key in " + VD('j1') + " and key in " + VD('j2') + ", 'str', 'int', 'int')", ['C12'])])])
    spec.methods[('BaseEvent', 'event_results_flat_dict')] = key


def install(spec: Spec):
    spec.specfuns['pos'] = sf_pos
    C = spec.functions['BaseEvent.event_results_filtered']
    have = {c.label for c in C.ensures}
    C.ensures = list(C.ensures) + [Clause.of(c) for c in VIEW if c[0] not in have]
    for rc in C.raises:
        if rc.label == 'requested_raise':
            have = {c.label for c in rc.ensures}
            rc.ensures = list(rc.ensures) + [Clause.of(c) for c in RAISE_VIEW if c[0] not in have]
    install_wrappers(spec)
    install_flat_list(spec)
    install_flat_dict(spec)
