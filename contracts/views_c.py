"""C12, second half: the result accessors are pure views of the recorded results, in handler order.

`event_results_filtered` is the one place where include / raise_if_any / raise_if_none are interpreted; the other accessors wrap
it. Its view post-conditions are stated over the event's `event_results` dict at return (there is no suspension point after the
comprehensions are evaluated):

  exactly_the_included_results     k in result  <=>  k in event_results and include(event_results[k])
  values_are_the_recorded_results  result[k] is event_results[k]
  in_handler_order                 the keys of result appear in the order they have in event_results

`pos(d, k)` is the insertion position of key k in dict d (A10: dicts are insertion ordered)."""
from __future__ import annotations

import z3

from pyvc.spec import Clause, RaisesClause, Spec
from pyvc.values import INT, V, mk_int, to_smt, coerce


def sf_pos(ex, d, k):
    keys, n, has, val, idx = ex.dict_parts(d)
    return mk_int(z3.Select(idx, to_smt(coerce(k, d.ty.args[0]))))


ER = 'self.event_results'
INCLUDED = lambda k: "(" + k + " in " + ER + " and holds(include, " + ER + "[" + k + "]))"
IS_ERR = lambda r: "(" + r + ".error is not None or isinstance(" + r + ".result, BaseException))"

VIEW = [
    ('exactly_the_included_results', "forall(lambda k: (k in result) == " + INCLUDED('k') + ", 'str')", ['C12']),
    ('values_are_the_recorded_results', "forall(lambda k: implies(k in result, result[k] is " + ER + "[k]), 'str')", ['C12']),
    ('in_handler_order', "forall(lambda k1, k2: implies(k1 in result and k2 in result, (pos(result, k1) < pos(result, k2)) == (pos(" + ER + ", k1) < pos(" + ER + ", k2))), 'str', 'str')", ['C12']),
    ('is_a_dict', 'wf_dict(result)', []),
]

RAISE_VIEW = [
    # raise_if_any: the object raised is the recorded error (or returned exception object) of the FIRST failing result in handler order
    ('first_recorded_error_is_raised_as_is',
     "implies(raise_if_any and exists(lambda k: k in " + ER + " and " + IS_ERR(ER + '[k]') + ", 'str'), "
     "exists(lambda k: k in " + ER + " and " + IS_ERR(ER + '[k]') + " and (raised is " + ER + "[k].error or (" + ER + "[k].error is None and raised is " + ER + "[k].result)) and "
     "forall(lambda k2: implies(k2 in " + ER + " and pos(" + ER + ", k2) < pos(" + ER + ", k), not " + IS_ERR(ER + '[k2]') + "), 'str'), 'str'))", ['C11', 'C12']),
    # raise_if_none: ValueError exactly when nothing is included (and no error had to be raised first)
    ('value_error_only_if_nothing_included',
     "implies(not (raise_if_any and exists(lambda k: k in " + ER + " and " + IS_ERR(ER + '[k]') + ", 'str')), "
     "isinstance(raised, ValueError) and raise_if_none and not exists(lambda k: " + INCLUDED('k') + ", 'str'))", ['C12']),
]


def install(spec: Spec):
    spec.specfuns['pos'] = sf_pos
    C = spec.functions['BaseEvent.event_results_filtered']
    have = {c.label for c in C.ensures}
    C.ensures = list(C.ensures) + [Clause.of(c) for c in VIEW if c[0] not in have]
    for rc in C.raises:
        if rc.label == 'requested_raise':
            have = {c.label for c in rc.ensures}
            rc.ensures = list(rc.ensures) + [Clause.of(c) for c in RAISE_VIEW if c[0] not in have]
