"""Field schema, module globals and context variables of bubus/service.py and bubus/models.py."""
from pyvc import models
from pyvc.spec import Spec
from pyvc.values import V, PY, parse_ty

S = 'bubus/service.py'
M = 'bubus/models.py'


def install(spec: Spec):
    for f, t in [
        # EventBus
        ('name', 'str'), ('id', 'str'), ('handlers', 'dict[str,list[Handler]]'), ('event_queue', 'opt[CleanShutdownQueue]'),
        ('event_history', 'dict[str,BaseEvent]'), ('_is_running', 'bool'), ('_runloop_task', 'opt[Task]'), ('_on_idle', 'opt[AsyncEvent]'),
        ('max_history_size', 'opt[int]'), ('parallel_handlers', 'bool'), ('wal_path', 'opt[Path]'),
        # BaseEvent
        ('event_id', 'str'), ('event_type', 'str'), ('event_schema', 'str'), ('event_timeout', 'opt[real]'), ('event_result_type', 'any'),
        ('event_path', 'list[str]'), ('event_parent_id', 'opt[str]'), ('event_created_at', 'datetime'), ('event_processed_at', 'opt[datetime]'),
        ('event_results', 'dict[str,EventResult]'), ('_event_completed_signal', 'opt[AsyncEvent]'),
        # EventResult
        ('status', 'str'), ('handler_id', 'str'), ('handler_name', 'str'), ('result_type', 'any'), ('eventbus_id', 'str'),
        ('eventbus_name', 'str'), ('timeout', 'opt[real]'), ('started_at', 'opt[datetime]'), ('result', 'any'), ('error', 'opt[BaseException]'),
        ('completed_at', 'opt[datetime]'), ('_handler_completed_signal', 'opt[AsyncEvent]'), ('event_children', 'list[BaseEvent]'),
        # handlers (functions / bound methods)
        ('__self__', 'any'),
        # ReentrantLock
        ('_semaphore', 'opt[Semaphore]'), ('_depth', 'int'), ('_loop', 'opt[Loop]'),
        # module state
        ('g$global_lock', 'opt[ReentrantLock]'),
    ]:
        spec.field(f, t)
    for c in ('Handler',):
        models.smt.defclass(c, 'object')
    spec.class_fields = {('BaseEvent', 'event_processed_at')}

    ctx = {
        '_current_event_context': ('current_event', parse_ty('opt[BaseEvent]')),
        'inside_handler_context': ('inside_handler', parse_ty('bool')),
        'holds_global_lock': ('holds_global_lock', parse_ty('bool')),
        '_current_handler_id_context': ('current_handler_id', parse_ty('opt[str]')),
    }
    for file in (S, M):
        g = spec.globals.setdefault(file, {})
        for name, (key, ty) in ctx.items():
            g[name] = ('ctxvar', key, ty)
            spec.ctxvars[name] = (key, ty, None)
        g['_global_eventbus_lock'] = ('state', 'g$global_lock')
        g['EventBus'] = ('cls', 'EventBus')
        g['BaseEvent'] = ('cls', 'BaseEvent')
        g['EventResult'] = ('cls', 'EventResult')
        g['BaseModel'] = ('cls', 'BaseModel')
        g['QueueShutDown'] = ('cls', 'QueueShutDown')
        g['CleanShutdownQueue'] = ('cls', 'CleanShutdownQueue')
        g['ReentrantLock'] = ('cls', 'ReentrantLock')
        g['TypeAdapter'] = ('cls', 'TypeAdapter')
        g['UTC'] = ('const', V(PY, py=('UTC',)))
        for fn in ('get_handler_id', 'get_handler_name', '_get_global_lock', '_log_pretty_path', '_log_filtered_traceback', '_current_task_is_being_cancelled'):
            g[fn] = ('fn', 'bubus.' + fn)
    g = spec.globals['*']
    g['EventBus.all_instances'] = ('weakset', parse_ty('EventBus'))
