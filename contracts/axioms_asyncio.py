"""Trusted axioms A2-A6 for asyncio objects used by bubus (Queue, Event, tasks, loop). Never counted as proved."""
from __future__ import annotations

import ast

import z3

from pyvc import smt
from pyvc.core import RaiseSig
from pyvc.models import arg, kw
from pyvc.smt import NONE, Ref
from pyvc.spec import Spec
from pyvc.values import (ANY, BOOL, INT, PY, REAL, STR, Ty, Unsupported, V, coerce, fresh, fresh_name, from_smt, mk_bool,
                         mk_int, mk_none, mk_real, mk_str, obj, parse_ty, to_smt)


# ------------------------------------------------------------------ asyncio.Queue (A5)
def q_items(ex, q):
    return ex.read_field(q.term, 'q_items')


def queue_new(ex, n, awaited, recv=None):
    q = ex.fresh_obj('CleanShutdownQueue', 'queue')
    ms = kw(n, 'maxsize')
    maxsize = coerce(ex.eval(ms), INT) if ms is not None else mk_int(0)
    et = ex.field_ty('q_items').args[0]
    ex.write_field(q.term, 'q_items', ex.mk_list(et, z3.K(z3.IntSort(), NONE), z3.IntVal(0)))
    ex.write_field(q.term, 'q_unfinished', mk_int(0))
    ex.write_field(q.term, 'q_maxsize', maxsize)
    ex.write_field(q.term, '_is_shutdown', mk_bool(False))
    return q


def queue_qsize(ex, n, awaited, recv):
    return mk_int(ex.list_len(q_items(ex, recv)))


def queue_empty(ex, n, awaited, recv):
    return mk_bool(ex.list_len(q_items(ex, recv)) == 0)


def queue_full(ex, n, awaited, recv):
    ms = ex.read_field(recv.term, 'q_maxsize').term
    return mk_bool(z3.And(ms > 0, ex.list_len(q_items(ex, recv)) >= ms))


def base_put_nowait(ex, n, awaited, recv):
    """asyncio.Queue.put_nowait: QueueFull iff maxsize > 0 and qsize >= maxsize; else append, unfinished += 1."""
    item = ex.eval(n.args[0])
    items = q_items(ex, recv)
    ms = ex.read_field(recv.term, 'q_maxsize').term
    full = z3.And(ms > 0, ex.list_len(items) >= ms)
    if ex.branch(full, 'queue_full'):
        ex.raise_new('QueueFull', 'Queue.put_nowait')
    ex.write_field(recv.term, 'q_items', ex.list_append(items, item))
    ex.write_field(recv.term, 'q_unfinished', mk_int(ex.read_field(recv.term, 'q_unfinished').term + 1))
    return mk_none()


def pop_head(ex, q):
    items = q_items(ex, q)
    ln = ex.list_len(items)
    head = ex.list_at(items, z3.IntVal(0))
    i = z3.Int(fresh_name('i'))
    rest = ex.mk_list(items.ty.args[0], z3.Lambda([i], z3.Select(ex.list_elems(items), i + 1)), ln - 1)
    ex.write_field(q.term, 'q_items', rest)
    ex.assume_type(head)
    return head


def base_get_nowait(ex, n, awaited, recv):
    items = q_items(ex, recv)
    if ex.branch(ex.list_len(items) == 0, 'queue_empty'):
        ex.raise_new('QueueEmpty', 'Queue.get_nowait')
    return pop_head(ex, recv)


def queue_task_done(ex, n, awaited, recv):
    u = ex.read_field(recv.term, 'q_unfinished').term
    ex.safety('ValueError', u > 0, 'task_done_called_too_many_times')
    ex.write_field(recv.term, 'q_unfinished', mk_int(u - 1))
    return mk_none()


def queue_join(ex, n, awaited, recv):
    if not awaited:
        return V(PY, py=('coro', 'Queue.join', {'self': recv}))
    return queue_join_await(ex, {'self': recv})


def queue_join_await(ex, d):
    """join() returns iff unfinished == 0 (at the moment it returns)."""
    q = d[2]['self'] if isinstance(d, tuple) else d['self']
    ex.suspend('Queue.join')
    ex.assume(ex.read_field(q.term, 'q_unfinished').term == 0)
    return mk_none()


# ------------------------------------------------------------------ asyncio.Event (A6)
def event_new(ex, n, awaited, recv=None):
    e = ex.fresh_obj('AsyncEvent', 'aevent')
    ex.write_field(e.term, 'ev_set', mk_bool(False))
    return e


def event_set(ex, n, awaited, recv):
    ex.write_field(recv.term, 'ev_set', mk_bool(True))
    return mk_none()


def event_clear(ex, n, awaited, recv):
    ex.write_field(recv.term, 'ev_set', mk_bool(False))
    return mk_none()


def event_is_set(ex, n, awaited, recv):
    return ex.read_field(recv.term, 'ev_set')


def event_wait(ex, n, awaited, recv):
    if not awaited:
        return V(PY, py=('coro', 'AsyncEvent.wait', {'self': recv}))
    return event_wait_await(ex, {'self': recv})


def event_wait_await(ex, d):
    e = d[2]['self'] if isinstance(d, tuple) else d['self']
    already = ex.read_field(e.term, 'ev_set').term
    if ex.branch(already, 'event_already_set'):
        return mk_bool(True)     # Event.wait() does not suspend when the flag is set
    ex.suspend('Event.wait')
    ex.assume(ex.read_field(e.term, 'ev_set').term)
    return mk_bool(True)


# ------------------------------------------------------------------ loop / tasks (A2, A3)
def get_running_loop(ex, n, awaited, recv=None):
    from pyvc.symexec import MOD
    running = ex.read_field(MOD, 'g$loop_running').term
    if not ex.branch(running, 'loop_running'):
        ex.raise_new('RuntimeError', 'asyncio.get_running_loop')
    loop = ex.read_field(MOD, 'g$current_loop')
    return loop


def loop_time(ex, n, awaited, recv=None):
    from pyvc.symexec import MOD
    t = fresh(REAL, 'looptime')
    last = ex.read_field(MOD, 'g$clock').term
    ex.assume(t.term >= last)
    ex.write_field(MOD, 'g$clock', t)
    return t


def make_task(ex, coro: V, name='task') -> V:
    t = ex.fresh_obj('Task', name)
    ex.write_field(t.term, 'task_done', mk_bool(False))
    ex.write_field(t.term, 'task_cancel_requested', mk_bool(False))
    info = {'coro': coro.py if coro.ty.kind == 'py' else None, 'state': 'pending', 'result': None, 'exc': None}
    ex.st.tasks.append(info)
    return V(t.ty, t.term, py=('task', info))


def copy_context(ex, n, awaited, recv=None):
    """A7: contextvars.copy_context() is a snapshot of the current task's context variables."""
    for gname, (key, ty, dflt) in ex.spec.ctxvars.items():
        ex.ctxvar_method(('ctxvar', key, ty), 'get', n)          # materialise the variables not read so far
    return V(PY, py=('ctxcopy', dict(ex.st.ctx)))


def create_task(ex, n, awaited, recv=None):
    """A2: the coroutine will run once, later, as its own task, in a copy of the creator's context (or in the given context)."""
    coro = ex.eval(n.args[0])
    if coro.ty.kind != 'py' or coro.py[0] != 'coro':
        raise Unsupported('create_task of %r' % (coro,))
    ctx = None
    for k in n.keywords:
        if k.arg == 'context':
            c = ex.eval(k.value)
            if c.ty.kind != 'py' or c.py[0] != 'ctxcopy':
                raise Unsupported('create_task(context=%s)' % ast.unparse(k.value))
            ctx = c.py[1]
        elif k.arg == 'name':
            pass                                                   # X1: task names are labels only
        else:
            raise Unsupported('create_task(%s=...)' % k.arg)
    t = make_task(ex, coro)
    key = coro.py[1]
    if key in ex.spec.functions:
        # a coroutine of a function under contract: its pre-condition must hold in the context the task will run in; what the
        # task does is seen by its creator only as interference at the creator's suspension points
        C = ex.spec.functions[key]
        saved = ex.st.ctx
        if ctx is not None:
            ex.st.ctx = dict(ctx)
        try:
            env = dict(coro.py[2])
            for cl in C.requires:
                ex.oblige('callsite:create_task(%s)/requires' % C.key, cl.label, ex.spec_bool(cl.expr, env, entry=ex.st.snapshot()), cl.tags,
                          meta={'callee': C.key})
        finally:
            ex.st.ctx = saved
        if key not in getattr(ex.C, 'spawns', ()):
            raise Unsupported('create_task(%s): not declared in spawns= of %s' % (key, ex.C.key))
        if 'spawned_tasks' in ex.spec.ghosts and 'spawned_tasks' in ex.C.ghost_modifies:      # tracked only where the contract speaks about it
            ex.ghost_set('spawned_tasks', ex.list_append(ex.ghost('spawned_tasks'), V(t.ty, t.term)))
    return t


def _spawned_outcomes(ex):
    """Ways a task spawned by this activation may end exceptionally, from the contracts of the spawned coroutines: one fork for all
    declared Exception subclasses, one per CancelledError clause that is not a delivered cancellation (A2b: a handler task is
    cancelled only through its awaiter - that case is the cancellation fork of the awaiter's own suspension point)."""
    keys = getattr(ex.C, 'spawns', ())
    if not keys:
        raise Unsupported('await of an opaque task')
    out = []
    for key in keys:
        for rc in ex.spec.functions[key].raises:
            for c in ((rc.cls,) if isinstance(rc.cls, str) else tuple(rc.cls)):
                if c == 'CancelledError':
                    if not getattr(rc, 'delivered', True):
                        out.append(('CancelledError', 'task:%s/%s' % (key, rc.label), True))
                elif not any(o[0] == 'Exception' for o in out):
                    out.append(('Exception', 'task:%s/exception' % key, False))
    return out


def _raise_from_spawned(ex, outcome, where):
    cls, origin, exact = outcome
    raise RaiseSig(ex.fresh_exc(cls, base='task_exc', exact=exact), where + ' ' + origin)


def opaque_task_await(ex, task: V):
    """A2: `await t` of a task spawned by this activation resumes only once t is done (or the awaiter is cancelled - the fork made by
    suspend); it returns t's result or raises what t's coroutine ended with. A CancelledError that ends t is not a cancellation of
    the awaiter."""
    outs = _spawned_outcomes(ex)
    ex.suspend('await task')
    ex.assume(ex.read_field(task.term, 'task_done').term)
    which = ex.choice([None] * (1 + len(outs)), 'await task: outcome')
    if which == 0:
        r = fresh(ANY, 'task_result')
        ex.assume_type(r)
        return r
    _raise_from_spawned(ex, outs[which - 1], 'await task')


def gather(ex, n, awaited, recv=None):
    """A3': asyncio.gather(*ts): resumes when every t is done - or, without return_exceptions=True, as soon as one of them has ended
    with an exception (the others keep running and are NOT cancelled), raising that exception."""
    if not awaited:
        raise Unsupported('asyncio.gather not awaited')
    if len(n.args) != 1 or not isinstance(n.args[0], ast.Starred):
        raise Unsupported('asyncio.gather: only gather(*iterable) is modelled')
    ret_exc = False
    for k in n.keywords:
        if k.arg == 'return_exceptions' and isinstance(k.value, ast.Constant):
            ret_exc = bool(k.value.value)
        else:
            raise Unsupported('asyncio.gather(%s=...)' % k.arg)
    it = n.args[0].value
    if isinstance(it, ast.GeneratorExp):
        it = ast.copy_location(ast.ListComp(elt=it.elt, generators=it.generators), it)
    src = ex.as_list(ex.refresh(ex.eval(it)))
    if not (src.ty.args and src.ty.args[0].kind == 'obj' and src.ty.args[0].cls == 'Task'):
        raise Unsupported('asyncio.gather over %r' % (src.ty,))
    outs = _spawned_outcomes(ex)
    ex.suspend('asyncio.gather')
    nlen = ex.list_len(src)
    j = z3.Int(fresh_name('gj'))
    done_at = lambda i: ex.read_field(ex.list_at(src, i).term, 'task_done').term
    nopts = 1 if ret_exc else 1 + len(outs)
    which = ex.choice([None] * nopts, 'gather: outcome') if nopts > 1 else 0
    if which == 0:
        ex.assume(z3.ForAll([j], z3.Implies(z3.And(0 <= j, j < nlen), done_at(j))))
        r = fresh(Ty('list', (ANY,)), 'gathered')
        ex.assume_type(r)
        return r
    w = z3.Int(fresh_name('gw'))
    ex.assume(z3.And(0 <= w, w < nlen, done_at(w)))
    _raise_from_spawned(ex, outs[which - 1], 'asyncio.gather')


def task_info(v: V):
    if v.py and v.py[0] == 'task':
        return v.py[1]
    return None


def task_done_m(ex, n, awaited, recv):
    return ex.read_field(recv.term, 'task_done')


def task_cancel(ex, n, awaited, recv):
    ex.write_field(recv.term, 'task_cancel_requested', mk_bool(True))
    info = task_info(recv)
    if info is not None and info['state'] == 'pending':
        info['state'] = 'cancel_requested'
    return mk_bool(True)


def install(spec: Spec):
    for f, t in [('q_items', 'list[BaseEvent]'), ('q_unfinished', 'int'), ('q_maxsize', 'int'), ('_is_shutdown', 'bool'),
                 ('ev_set', 'bool'), ('task_done', 'bool'), ('task_cancel_requested', 'bool'),
                 ('g$loop_running', 'bool'), ('g$current_loop', 'Loop'), ('g$clock', 'real')]:
        spec.field(f, t)
    b = spec.builtins

    def b_super(ex, n, awaited, recv=None):
        return V(PY, py=('super', 'Queue', ex.st.env['self']))
    b['super'] = b_super
    spec.globals['*']['super'] = ('fn', 'super')
    b['CleanShutdownQueue.__new__'] = queue_new
    b['AsyncEvent.__new__'] = event_new
    b['asyncio.get_running_loop'] = get_running_loop
    b['asyncio.create_task'] = create_task
    b['asyncio.gather'] = gather
    b['contextvars.copy_context'] = copy_context
    b['Queue.put_nowait'] = base_put_nowait
    b['Queue.get_nowait'] = base_get_nowait
    b['Queue.join#await'] = queue_join_await
    b['AsyncEvent.wait#await'] = event_wait_await
    m = spec.methods
    m[('CleanShutdownQueue', 'qsize')] = queue_qsize
    m[('CleanShutdownQueue', 'empty')] = queue_empty
    m[('CleanShutdownQueue', 'full')] = queue_full
    m[('CleanShutdownQueue', 'task_done')] = queue_task_done
    m[('CleanShutdownQueue', 'join')] = queue_join
    m[('AsyncEvent', 'set')] = event_set
    m[('AsyncEvent', 'clear')] = event_clear
    m[('AsyncEvent', 'is_set')] = event_is_set
    m[('AsyncEvent', 'wait')] = event_wait
    m[('Task', 'done')] = task_done_m
    m[('Task', 'cancel')] = task_cancel
    m[('Loop', 'create_task')] = create_task
    m[('Loop', 'time')] = loop_time
    install2(spec)
    install3(spec)
    spec.builtin_effects.update({
        'put_nowait': ['q_items', 'q_unfinished'], 'get_nowait': ['q_items'], 'task_done': ['q_unfinished'],
        'set': ['ev_set'], 'clear': ['ev_set'], 'cancel': ['task_cancel_requested'], 'shutdown': ['_is_shutdown'],
    })


# ------------------------------------------------------------------ coroutines run as tasks (A2, A3, A5)
def queue_get(ex, n, awaited, recv):
    d = ('coro', 'CleanShutdownQueue.get', {'self': recv})
    if not awaited:
        return V(PY, py=d)
    return queue_get_await(ex, d)


def queue_get_effect(ex, q):
    """Completion of CleanShutdownQueue.get(): returns the head (queue non-empty at that instant) or raises QueueShutDown
    (queue shut down and empty). Returns ('ok', head) or ('exc', exc)."""
    items = q_items(ex, q)
    nonempty = ex.list_len(items) > 0
    shut = z3.And(ex.read_field(q.term, '_is_shutdown').term, z3.Not(nonempty))
    i = ex.choice([nonempty, shut], 'queue.get completes')
    if i == 0:
        head = pop_head(ex, q)
        if 'dequeued' in ex.spec.ghosts:
            lst = ex.ghost('dequeued')
            ex.ghost_set('dequeued', ex.list_append(lst, head))
        return ('ok', head)
    return ('exc', ex.fresh_exc('QueueShutDown', exact=True))


def queue_get_await(ex, d):
    q = d[2]['self']
    ex.suspend('Queue.get')
    kind, v = queue_get_effect(ex, q)
    if kind == 'ok':
        return v
    raise RaiseSig(v, 'Queue.get')


def complete_task(ex, task: V):
    """The task's coroutine finishes now (in the current atomic step)."""
    info = task_info(task)
    if info is None or info['coro'] is None:
        raise Unsupported('completion of an opaque task')
    key = info['coro'][1]
    if key == 'CleanShutdownQueue.get':
        kind, v = queue_get_effect(ex, info['coro'][2]['self'])
    elif key in ('Queue.join', 'AsyncEvent.wait'):
        fn = ex.spec.builtins[key + '#complete']
        kind, v = fn(ex, info['coro'])
    else:
        raise Unsupported('completion of task running %s' % key)
    info['state'] = 'done'
    info['result' if kind == 'ok' else 'exc'] = v
    ex.write_field(task.term, 'task_done', mk_bool(True))


def asyncio_wait(ex, n, awaited, recv=None):
    """A3: asyncio.wait(fs, timeout=t) returns (done, pending) within t; never raises TimeoutError; does not cancel."""
    fs = ex.eval(n.args[0])
    if not (fs.py and fs.py[0] == 'setlit' and len(fs.py[1]) == 1):
        raise Unsupported('asyncio.wait over other than a one-task set literal')
    task = fs.py[1][0]
    tmo = kw(n, 'timeout')
    tv = ex.eval(tmo) if tmo is not None else mk_none()
    if not awaited:
        raise Unsupported('asyncio.wait not awaited')
    ex.suspend('asyncio.wait')
    info = task_info(task)
    already = info is not None and info['state'] == 'done'
    can_timeout = z3.BoolVal(True) if tv.ty.kind != 'obj' else tv.term != NONE
    i = 0 if already else ex.choice([None, can_timeout], 'asyncio.wait: task done?')
    if i == 0:
        if not already:
            if info is not None and info['coro'] is not None:
                complete_task(ex, task)
                ex.suspend('asyncio.wait(after completion)')   # other tasks may run between the inner task finishing and the waiter resuming
            else:
                ex.write_field(task.term, 'task_done', mk_bool(True))
        return V(Ty('tuple', (BOOL, BOOL)), (mk_bool(True), mk_bool(False)))
    ex.st.flags['waited_out'] = True
    return V(Ty('tuple', (BOOL, BOOL)), (mk_bool(False), mk_bool(True)))


def task_await(ex, task: V):
    info = task_info(task)
    if info is None:
        return opaque_task_await(ex, task)
    if info['state'] == 'done':
        if info['exc'] is not None:
            raise RaiseSig(info['exc'], 'task exception')
        return info['result'] if info['result'] is not None else mk_none()
    model = info.get('await_model')
    if model is not None:
        return model(ex, task)
    if info['coro'] is not None and info['coro'][1].startswith('local:'):
        # a helper task of the function itself (e.g. the deadlock monitor): awaiting it after cancel() raises its CancelledError
        ex.suspend('await helper task')
        if info['state'] == 'cancel_requested':
            info['state'] = 'cancelled'
            raise RaiseSig(ex.fresh_exc('CancelledError', base='helper_task_cancelled', exact=True), 'await cancelled helper task')
        info['state'] = 'done'
        return mk_none()
    if info['coro'] is not None and info['coro'][1] in ('CleanShutdownQueue.get',):
        ex.suspend('await task')
        complete_task(ex, task)
        return task_await(ex, task)
    raise Unsupported('await of task running %r' % (info['coro'][1] if info['coro'] else None,))


def install2(spec: Spec):
    spec.methods[('CleanShutdownQueue', 'get')] = queue_get
    spec.builtins['CleanShutdownQueue.get#await'] = queue_get_await
    spec.builtins['asyncio.wait'] = asyncio_wait
    spec.builtins['Task#await'] = task_await
    spec.builtin_effects.update({'wait': ['q_items', 'task_done'], 'get': ['q_items']})


# ------------------------------------------------------------------ asyncio.wait_for (A3)
def coro_of(v: V):
    if v.ty.kind == 'py' and v.py[0] == 'coro':
        return v.py, None
    info = task_info(v)
    if info is not None and info['coro'] is not None:
        return info['coro'], info
    if v.py and v.py[0] == 'future':
        return ('coro', 'Future', {'self': v}), None
    raise Unsupported('wait_for of %r' % (v,))


def complete_coro(ex, coro):
    """The awaited thing finishes now: returns its value or raises its exception (no further suspension here)."""
    key = coro[1]
    if key.startswith('user:'):
        return coro[2]['run'](ex)
    if key == 'AsyncEvent.wait':
        e = coro[2]['self']
        ex.assume(ex.read_field(e.term, 'ev_set').term)
        return mk_bool(True)
    if key == 'Queue.join':
        q = coro[2]['self']
        ex.assume(ex.read_field(q.term, 'q_unfinished').term == 0)
        return mk_none()
    if key == 'CleanShutdownQueue.get':
        kind, v = queue_get_effect(ex, coro[2]['self'])
        if kind == 'ok':
            return v
        raise RaiseSig(v, 'Queue.get')
    if key == 'Future':
        f = coro[2]['self']
        return future_result(ex, f)
    if key.startswith('local:'):
        return mk_none()
    raise Unsupported('completion of %s' % key)


def wait_for(ex, n, awaited, recv=None):
    aw = ex.eval(n.args[0])
    tmo = kw(n, 'timeout') or (n.args[1] if len(n.args) > 1 else None)
    tv = ex.eval(tmo) if tmo is not None else mk_none()
    if not awaited:
        raise Unsupported('asyncio.wait_for not awaited')
    coro, info = coro_of(aw)
    if info is not None and info['state'] == 'done':
        return task_await(ex, aw)
    try:
        ex.suspend('asyncio.wait_for(%s)' % coro[1])
    except RaiseSig:
        if info is not None:
            info['state'] = 'cancelled'          # A3: cancelling the waiter cancels the inner awaitable
            ex.write_field(aw.term, 'task_done', mk_bool(True))
        raise
    can_timeout = z3.BoolVal(True)
    if tv.ty.kind == 'obj':
        can_timeout = tv.term != NONE
    i = ex.choice([None, can_timeout], 'wait_for: completes or times out')
    if i == 1:
        ex.st.trace.append('wait_for:timeout')
        if info is not None:
            info['state'] = 'cancelled'          # A3: on expiry the inner awaitable has been cancelled and awaited
            ex.write_field(aw.term, 'task_done', mk_bool(True))
        if coro[1].startswith('user:') and coro[2].get('on_timeout'):
            coro[2]['on_timeout'](ex)
        raise RaiseSig(ex.fresh_exc('TimeoutError', base='wait_for_timeout', exact=True), 'asyncio.wait_for')
    if info is not None:
        info['state'] = 'done'
        ex.write_field(aw.term, 'task_done', mk_bool(True))
    return complete_coro(ex, coro)


def future_new(ex, n, awaited, recv=None):
    f = ex.fresh_obj('Future', 'future')
    ex.write_field(f.term, 'fut_done', mk_bool(False))
    return V(f.ty, f.term, py=('future', {}))


def future_done(ex, n, awaited, recv):
    return ex.read_field(recv.term, 'fut_done')


def future_set_result(ex, n, awaited, recv):
    done = ex.read_field(recv.term, 'fut_done').term
    ex.safety('InvalidStateError', z3.Not(done), 'future_already_done')
    ex.write_field(recv.term, 'fut_done', mk_bool(True))
    ex.write_field(recv.term, 'fut_result', coerce(ex.eval(n.args[0]), ANY))
    return mk_none()


def future_result(ex, f: V):
    ex.assume(ex.read_field(f.term, 'fut_done').term)
    return ex.read_field(f.term, 'fut_result')


def future_await(ex, f: V):
    ex.suspend('await future')
    return future_result(ex, f)


def install3(spec: Spec):
    spec.field('fut_done', 'bool')
    spec.field('fut_result', 'any')
    spec.builtins['asyncio.wait_for'] = wait_for
    spec.builtins['Future.__new__'] = future_new
    spec.builtins['Future#await'] = future_await
    spec.methods[('Future', 'done')] = future_done
    spec.methods[('Future', 'set_result')] = future_set_result
    spec.builtin_effects.update({'wait_for': ['task_done'], 'set_result': ['fut_done', 'fut_result']})
