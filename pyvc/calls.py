"""Call layer: builtins, container methods, contracts at call sites, comprehension spec terms."""
from __future__ import annotations

import ast
import os

import z3

from . import smt
from .core import DeadPath, RaiseSig, ReturnSig
from .exprs import ExprMixin
from .smt import NONE, Ref
from .spec import Clause, FnContract
from .symexec import MOD
from .values import (ANY, BOOL, INT, PY, REAL, STR, Ty, Unsupported, V, coerce, fresh, fresh_name, from_smt, mk_bool,
                     mk_int, mk_none, mk_real, mk_str, obj, parse_ty, to_smt)

DROPPED_CALLS = ('logger.debug', 'logger.info', 'logger.warning', 'logger.error', 'logger.exception', 'warnings.warn', 'print',
                 'log_timeout_tree')


import itertools as _it
_EPOCH = _it.count(1)


def _free_consts(e):
    """uninterpreted constants occurring in e"""
    out, seen, stack = [], set(), [e]
    while stack:
        x = stack.pop()
        if x.get_id() in seen:
            continue
        seen.add(x.get_id())
        if z3.is_quantifier(x):
            stack.append(x.body())
        elif z3.is_app(x):
            if x.num_args() == 0 and x.decl().kind() == z3.Z3_OP_UNINTERPRETED:
                out.append(x)
            stack.extend(x.children())
    return out


_PAT_OK_KINDS = None


def _pattern_ok(t, var) -> bool:
    """t may be used inside a quantifier pattern: built from uninterpreted symbols, selects and datatype accessors/constructors only."""
    global _PAT_OK_KINDS
    if _PAT_OK_KINDS is None:
        _PAT_OK_KINDS = {z3.Z3_OP_UNINTERPRETED, z3.Z3_OP_SELECT, z3.Z3_OP_DT_ACCESSOR, z3.Z3_OP_DT_CONSTRUCTOR}
    stack = [t]
    while stack:
        x = stack.pop()
        if x.eq(var):
            continue
        if not z3.is_app(x) or x.decl().kind() not in _PAT_OK_KINDS:
            return False
        stack.extend(x.children())
    return True


def select_patterns(term, var, limit=3) -> list:
    """Sub-terms `Select(a, var)` of term usable as (alternative) triggers for a quantifier over var."""
    out, seen, stack = [], set(), [term]
    while stack and len(out) < limit:
        x = stack.pop()
        if x.get_id() in seen or z3.is_quantifier(x) or not z3.is_app(x):
            continue
        seen.add(x.get_id())
        if x.decl().kind() == z3.Z3_OP_SELECT and x.arg(1).eq(var) and not any(c.eq(var) for c in _free_consts(x.arg(0))) and _pattern_ok(x.arg(0), var):
            if not any(o.eq(x) for o in out):
                out.append(x)
            continue
        stack.extend(x.children())
    return out


class CallMixin(ExprMixin):

    # ------------------------------------------------------------------ dispatch
    def e_Call(self, n):
        return self.eval_call(n, awaited=False)

    def call_text(self, n: ast.Call) -> str:
        return ast.unparse(n.func)

    def eval_call(self, n: ast.Call, awaited: bool) -> V:
        r = self._eval_call(n, awaited)
        if self.C is not None and not self.spec_mode and self.C.callsites:
            cs = self.C.callsites.get(ast.unparse(n)) or self.C.callsites.get(self.call_text(n))
            if cs is not None and cs.get('post') is not None and not (cs.get('awaited_only', True) and not awaited and r.ty.kind == 'py'):
                cs['post'](self, n, r)       # ghost bookkeeping after the call has returned normally
        return r

    def _eval_call(self, n: ast.Call, awaited: bool) -> V:
        text = self.call_text(n)
        full = ast.unparse(n)
        if text in DROPPED_CALLS:
            self.dropped.add(text)
            return mk_none()
        # call-site annotation declared in the contract of the function being verified
        cs = None
        if self.C is not None:
            cs = self.C.callsites.get(full) or self.C.callsites.get(text)
        if cs is not None and cs.get('pure') is not None:
            return cs['pure'](self, n)
        if cs is not None and cs.get('pre') is not None and not self.spec_mode:
            cs['pre'](self, n)
        if cs is not None and cs.get('model') is not None:
            return cs['model'](self, n, awaited)
        if text == 'cast' or text == 'typing.cast':
            return self.eval(n.args[1])
        if text == 'old' and self.spec_mode:
            return self.eval_old(n.args[0])
        if text == 'loop_old' and self.spec_mode:
            return self.eval_loop_old(n.args[0])
        if text in ('forall', 'exists') and self.spec_mode:
            return self.quantifier(text, n)
        if self.spec_mode and text in self.spec.specfuns:
            return self.spec.specfuns[text](self, *[self.eval(a) for a in n.args])
        fn = self.eval(n.func)
        if fn.ty.kind == 'obj' and fn.py and fn.py[0] in ('closure', 'lambda'):
            fn = V(PY, py=fn.py)
        if fn.ty.kind != 'py':
            # a callable held in a variable (user code) must be declared as a call site
            raise Unsupported('call of data value %s (declare a callsite for %r)' % (fn.ty, text))
        d = fn.py
        if d[0] == 'fn':
            name = d[1]
            if name in self.spec.builtins:
                return self.spec.builtins[name](self, n, awaited)
            if name in self.spec.functions:
                return self.call_contract(self.spec.functions[name], n, None, awaited)
            raise Unsupported('call to %s has neither contract nor axiom' % name)
        if d[0] == 'cls':
            return self.construct(d[1], n)
        if d[0] == 'method':
            recv, meth = d[1], d[2]
            return self.call_method(recv, meth, n, awaited)
        if d[0] == 'lambda':
            return self.call_lambda(d, [self.eval(a) for a in n.args])
        if d[0] == 'closure':
            key = d[1]
            if key in self.spec.functions:
                return self.call_contract(self.spec.functions[key], n, None, awaited)
            if isinstance(d[2], ast.AsyncFunctionDef) and not awaited:
                return V(PY, py=('coro', 'local:' + d[2].name, {}))
        raise Unsupported('call of %r' % (d,))

    def quantifier(self, which: str, n: ast.Call) -> V:
        lam = n.args[0]
        if not isinstance(lam, ast.Lambda):
            raise Unsupported('%s needs a lambda' % which)
        tys = [parse_ty(a.value) if isinstance(a, ast.Constant) else INT for a in n.args[1:]]
        saved = getattr(self, 'spec_locals', None)
        new = dict(saved or {})
        bound = []
        for i, p in enumerate(lam.args.args):
            ty = tys[i] if i < len(tys) else INT
            c = z3.Const(fresh_name('q_' + p.arg), ty.sort())
            bound.append(c)
            new[p.arg] = V(ty, c)
        self.spec_locals = new
        if not hasattr(self, 'qfacts') or self.qfacts is None:
            self.qfacts = []
        self.qfacts.append([])
        if getattr(self, 'qbound', None) is None:
            self.qbound = []
        self.qbound.append(bound)
        try:
            body = self.truth(self.eval(lam.body))
        finally:
            self.spec_locals = saved
            facts = self.qfacts.pop()
            self.qbound.pop()
        # typing guards of list elements read in the body (deduplicated); those not mentioning a bound variable go outward
        seen, mine = set(), []
        from .smt import _symbols
        bnames = {str(b) for b in bound}
        for f in facts:
            if f.get_id() in seen:
                continue
            seen.add(f.get_id())
            if bnames & {str(x) for x in _free_consts(f)}:
                mine.append(f)
            elif self.qfacts:
                self.qfacts[-1].append(f)
        if which == 'forall':
            return mk_bool(z3.ForAll(bound, z3.Implies(z3.And(*mine), body) if mine else body))
        return mk_bool(z3.Exists(bound, z3.And(*(mine + [body])) if mine else body))

    def ghost(self, name: str) -> V:
        return self.lookup(name)

    def ghost_set(self, name: str, val: V):
        self.lookup(name)
        ty = self.spec.ghosts[name]
        val = coerce(val, ty)
        self.st.ghost[name] = V(val.ty, val.term, ('ghost', name), val.py)

    def eval_loop_old(self, node) -> V:
        """loop_old(e) in a loop invariant: e in the state at entry of that loop (before its first iteration)."""
        stack = getattr(self, 'loop_old_stack', None)
        if not stack:
            raise Unsupported('loop_old() outside a loop invariant')
        snap = stack[-1]
        self.old_stack.append({'heap': snap['heap'], 'ghost': snap['ghost'], 'env': {}, 'ctx': snap.get('ctx', {})})
        try:
            r = self.eval(node)
            return V(r.ty, r.term, None, r.py)
        finally:
            self.old_stack.pop()

    def eval_old(self, node) -> V:
        snap = self.entry
        self.old_stack.append({'heap': snap['heap'], 'ghost': snap['ghost'], 'env': snap['env'], 'ctx': snap.get('ctx', {})})
        try:
            r = self.eval(node)
            return V(r.ty, r.term, None, r.py)   # a snapshot: never re-read through its location
        finally:
            self.old_stack.pop()

    def call_lambda(self, d, args):
        node, env = d[1], d[2]
        saved = self.st.env
        new = dict(env)
        params = node.args.args
        for p, a in zip(params, args):
            new[p.arg] = a
        for p, dflt in zip(params[len(params) - len(node.args.defaults):], node.args.defaults):
            if p.arg not in new or params.index(p) >= len(args):
                self.st.env = env
                new[p.arg] = self.eval(dflt)
        self.st.env = new
        try:
            return self.eval(node.body)
        finally:
            self.st.env = saved

    def assume_lambda_semantics(self, c: V):
        """A one-parameter lambda handed to a callee as a predicate object c: forall x. holds(c, x) == <its body at x> (when the body is a
        pure expression of the contract language; otherwise nothing is assumed and the callee sees an uninterpreted predicate)."""
        holds = self.spec.specfuns.get('holds')
        node = c.py[1]
        if holds is None or len(node.args.args) != 1:
            return
        x = z3.Const(fresh_name('lx'), Ref)
        xv = V(ANY, x)
        n_pc = len(self.st.pc)
        if getattr(self, 'qbound', None) is None:
            self.qbound = []
        if getattr(self, 'qfacts', None) is None:
            self.qfacts = []
        self.qbound.append([x])
        self.qfacts.append([])
        self.spec_mode += 1
        try:
            body = self.truth(self.call_lambda(c.py, [xv]))
        except Unsupported:
            del self.st.pc[n_pc:]
            return
        finally:
            self.spec_mode -= 1
            self.qbound.pop()
            self.qfacts.pop()
        del self.st.pc[n_pc:]          # side facts of the evaluation mention the bound variable: dropped
        self.assume(z3.ForAll([x], self.truth(holds(self, V(ANY, c.term), xv)) == body))

    def construct(self, cls: str, n: ast.Call) -> V:
        if cls in smt.CLASSES and 'BaseException' in smt.ancestors(cls):
            # exception constructor: message arguments are not evaluated (X2)
            return self.fresh_exc(cls, base=cls, exact=True)
        key = cls + '.__new__'
        if key in self.spec.builtins:
            return self.spec.builtins[key](self, n, False)
        raise Unsupported('constructor %s()' % cls)

    # ------------------------------------------------------------------ methods
    def call_method(self, recv: V, meth: str, n: ast.Call, awaited: bool) -> V:
        recv = self.refresh(recv) if recv.ty.kind != 'py' else recv
        k = recv.ty.kind
        if k == 'list':
            return self.list_method(recv, meth, n)
        if k == 'dict':
            return self.dict_method(recv, meth, n)
        if k == 'set':
            return self.set_method(recv, meth, n)
        if k == 'py':
            d = recv.py
            if d[0] == 'ctxvar':
                return self.ctxvar_method(d, meth, n)
            if d[0] == 'task':
                return self.spec.builtins['Task.' + meth](self, n, awaited, recv)
            if d[0] == 'token':
                raise Unsupported('method on token')
            if d[0] == 'super':
                name = d[1] + '.' + meth
                if name in self.spec.builtins:
                    return self.spec.builtins[name](self, n, awaited, d[2])
            name = 'py:%s.%s' % (d[0], meth)
            if name in self.spec.builtins:
                return self.spec.builtins[name](self, n, awaited, recv)
            raise Unsupported('method %s on %r' % (meth, d))
        if k == 'obj':
            cls = recv.ty.cls
            for c in (cls,) + self.spec.subclasses.get(cls, ()) + ('*',):
                m = self.spec.methods.get((c, meth))
                if m is not None:
                    if isinstance(m, str):
                        return self.call_contract(self.spec.functions[m], n, recv, awaited)
                    return m(self, n, awaited, recv)
            raise Unsupported('method %s.%s has neither contract nor axiom' % (cls, meth))
        raise Unsupported('method call on %r' % (recv.ty,))

    def ctxvar_method(self, d, meth, n):
        key, ty = d[1], d[2]
        if meth == 'get':
            if key not in self.st.ctx:
                v = fresh(ty, 'ctx_' + key)
                self.assume_type(v)
                self.st.ctx[key] = v
                if self.entry is not None:
                    self.entry['ctx'].setdefault(key, v)
            return self.st.ctx[key]
        if meth == 'set':
            old = self.ctxvar_method(d, 'get', n)
            self.st.ctx[key] = coerce(self.eval(n.args[0]), ty)
            return V(PY, py=('token', key, old))
        if meth == 'reset':
            tok = self.eval(n.args[0])
            if tok.ty.kind != 'py' or tok.py[0] != 'token' or tok.py[1] != key:
                raise Unsupported('ContextVar.reset with a foreign token')
            self.st.ctx[key] = tok.py[2]
            return mk_none()
        raise Unsupported('ContextVar.%s' % meth)

    def list_method(self, recv: V, meth: str, n: ast.Call) -> V:
        if meth == 'append':
            x = self.eval(n.args[0])
            if recv.ty.args[0] == ANY and x.ty.kind != 'obj' and z3.is_int_value(z3.simplify(self.list_len(recv))) and z3.simplify(self.list_len(recv)).as_long() == 0 and recv.loc and recv.loc[0] == 'local':
                # an empty local list literal takes the element type of its first append
                recv = self.mk_list(x.ty, z3.Const(fresh_name('empty'), z3.ArraySort(z3.IntSort(), x.ty.sort())), z3.IntVal(0))
                recv.loc = ('local', self._recv_name(n))
            self.mutate(recv, self.list_append(recv, x))
            return mk_none()
        if meth == 'extend':
            other = self.refresh(self.eval(n.args[0]))
            if other.ty.kind == 'obj' and 'list_items' in self.spec.fields:
                # a value of type Any that is a Python list: its elements are the heap field list_items of that object
                self.safety('TypeError', smt.issub(smt.tag(other.term), smt.CLASSES['list']), 'extend_with_non_list')
                other = self.read_field(other.term, 'list_items')
            if other.ty.kind != 'list':
                raise Unsupported('extend with %r' % (other.ty,))
            if recv.ty.args[0] != other.ty.args[0]:
                if z3.is_int_value(z3.simplify(self.list_len(recv))) and z3.simplify(self.list_len(recv)).as_long() == 0:
                    recv = V(other.ty, self.mk_list(other.ty.args[0], self.list_elems(other), z3.IntVal(0)).term, recv.loc)
                else:
                    raise Unsupported('extend element type mismatch')
            cat = self.list_concat(recv, other).term
            if not self.spec_mode:
                # name the concatenation: every later occurrence is a constant, not a copy of the nested lambda term
                c = z3.Const(fresh_name('extended'), cat.sort())
                self.assume(c == cat)
                cat = c
            self.mutate(recv, V(recv.ty, cat, recv.loc))
            return mk_none()
        if meth == 'remove':
            x = coerce(self.eval(n.args[0]), recv.ty.args[0])
            self.safety('ValueError', self.list_contains(recv, x), 'list_remove')
            self.mutate(recv, self.list_remove_first(recv, x))
            return mk_none()
        if meth == 'sort':
            key = None
            for kw in n.keywords:
                if kw.arg == 'key':
                    key = self.eval(kw.value)
                else:
                    raise Unsupported('sort(%s=)' % kw.arg)
            self.mutate(recv, self.sorted_list(recv, key))
            return mk_none()
        if meth == 'clear':
            self.mutate(recv, self.mk_list(recv.ty.args[0], self.list_elems(recv), z3.IntVal(0)))
            return mk_none()
        if meth == 'copy':
            return V(recv.ty, recv.term)
        raise Unsupported('list.%s' % meth)

    def _recv_name(self, n: ast.Call) -> str:
        f = n.func
        if isinstance(f, ast.Attribute) and isinstance(f.value, ast.Name):
            return f.value.id
        raise Unsupported('receiver is not a local name')

    def mutate(self, recv: V, new: V):
        if recv.loc is None:
            raise Unsupported('mutation of a container value without a location')
        self.write_loc(recv.loc, new)

    def list_remove_first(self, recv: V, x: V) -> V:
        """list.remove(x): remove the first occurrence (its position p is characterised, elements after it shift)."""
        n = self.list_len(recv)
        el = self.list_elems(recv)
        p = z3.Int(fresh_name('pos'))
        j = z3.Int(fresh_name('j'))
        xt = to_smt(x)
        self.assume(z3.And(0 <= p, p < n, z3.Select(el, p) == xt))
        self.assume(z3.ForAll([j], z3.Implies(z3.And(0 <= j, j < p), z3.Select(el, j) != xt)))
        i = z3.Int(fresh_name('i'))
        new = z3.Lambda([i], z3.If(i < p, z3.Select(el, i), z3.Select(el, i + 1)))
        out = self.mk_list(recv.ty.args[0], new, n - 1)
        out.loc = recv.loc
        out.py = ('removed_at', p)
        return out

    def sorted_list(self, recv: V, key: V | None) -> V:
        """Stable sort by key: fresh list + permutation with its inverse, ordered by key, ties keep source order (A10)."""
        n = self.list_len(recv)
        el = self.list_elems(recv)
        et = recv.ty.args[0]
        out = fresh(recv.ty, 'sorted')
        perm = z3.Const(fresh_name('perm'), z3.ArraySort(z3.IntSort(), z3.IntSort()))
        pinv = z3.Const(fresh_name('pinv'), z3.ArraySort(z3.IntSort(), z3.IntSort()))
        i, j = z3.Int(fresh_name('i')), z3.Int(fresh_name('j'))
        oel = self.list_elems(out)

        def keyof(term):
            x = from_smt(et, term)
            if key is None:
                return self.num(x).term
            self.spec_mode += 1
            try:
                return coerce(self.num(self.call_lambda(key.py, [x])), REAL).term
            finally:
                self.spec_mode -= 1

        self.assume(self.list_len(out) == n)
        self.assume(z3.ForAll([i], z3.Implies(z3.And(0 <= i, i < n), z3.And(0 <= z3.Select(perm, i), z3.Select(perm, i) < n,
                                                                                  z3.Select(pinv, z3.Select(perm, i)) == i,
                                                                                  z3.Select(oel, i) == z3.Select(el, z3.Select(perm, i)))),
                                 patterns=[z3.Select(perm, i), z3.Select(oel, i)]))
        self.assume(z3.ForAll([j], z3.Implies(z3.And(0 <= j, j < n), z3.And(0 <= z3.Select(pinv, j), z3.Select(pinv, j) < n,
                                                                                  z3.Select(perm, z3.Select(pinv, j)) == j)),
                                 patterns=[z3.Select(pinv, j)]))
        ki, kj = keyof(z3.Select(oel, i)), keyof(z3.Select(oel, j))
        self.assume(z3.ForAll([i, j], z3.Implies(z3.And(0 <= i, i < j, j < n),
                                                   z3.And(ki <= kj, z3.Implies(ki == kj, z3.Select(perm, i) < z3.Select(perm, j)))),
                                 patterns=[z3.MultiPattern(z3.Select(oel, i), z3.Select(oel, j))]))
        out.loc = recv.loc
        out.py = ('sorted', perm, pinv)
        return out

    def dict_method(self, recv: V, meth: str, n: ast.Call) -> V:
        kt, vt = recv.ty.args
        keys, cnt, has, val, idx = self.dict_parts(recv)
        if meth == 'get':
            k = self.eval(n.args[0])
            present = self.dict_has(recv, k)
            dflt = self.eval(n.args[1]) if len(n.args) > 1 else mk_none()
            got = self.dict_get_raw(recv, k)
            if vt.kind == 'obj':
                return V(vt if len(n.args) > 1 and dflt.ty.cls != 'NoneType' else Ty('obj', ('opt',), cls=vt.cls), z3.If(present, got.term, coerce(dflt, vt).term))
            if vt.kind == 'list' and dflt.ty.kind == 'list':
                d2 = dflt if dflt.ty == vt else self.mk_list(vt.args[0], z3.Const(fresh_name('empty'), z3.ArraySort(z3.IntSort(), vt.args[0].sort())), z3.IntVal(0))
                return V(vt, z3.If(present, got.term, d2.term))
            if self.branch(present, 'dict_get'):
                return got
            return dflt
        if meth in ('items', 'values', 'keys'):
            i = z3.Int(fresh_name('i'))
            if meth == 'keys':
                return self.mk_list(kt, keys, cnt)
            if meth == 'values':
                return self.mk_list(vt, z3.Lambda([i], z3.Select(val, z3.Select(keys, i))), cnt)
            tt = Ty('tuple', (kt, vt))
            return self.mk_list(tt, z3.Lambda([i], tt.sort().mk(z3.Select(keys, i), z3.Select(val, z3.Select(keys, i)))), cnt)
        if meth == 'clear':
            self.mutate(recv, self.empty_dict(recv.ty))
            return mk_none()
        if meth == 'update':
            other = self.refresh(self.eval(n.args[0]))
            self.mutate(recv, self.dict_merge(recv, other))
            return mk_none()
        raise Unsupported('dict.%s' % meth)

    def dict_merge(self, a: V, b: V) -> V:
        """a.update(b) (A10): keys of a keep their positions, keys only in b follow in b's order, values of b win."""
        if b.ty.kind == 'obj' and 'dict_items' in self.spec.fields:
            self.safety('TypeError', smt.issub(smt.tag(b.term), smt.CLASSES['dict']), 'update_with_non_dict')
            b = self.read_field(b.term, 'dict_items')
        if b.ty.kind != 'dict' or a.ty.args[0] != b.ty.args[0]:
            raise Unsupported('dict.update with %r' % (b.ty,))
        out = fresh(a.ty, 'merged')
        kt = a.ty.args[0].sort()
        k, k2 = z3.Const(fresh_name('mk'), kt), z3.Const(fresh_name('mk'), kt)
        ha, hb, ho = (lambda t: self.dict_has_term(a, t)), (lambda t: self.dict_has_term(b, t)), (lambda t: self.dict_has_term(out, t))
        _, na, _, va, ia = self.dict_parts(a)
        _, nb, _, vb, ib = self.dict_parts(b)
        _, no, _, vo, io = self.dict_parts(out)
        bval = lambda t: to_smt(coerce(from_smt(b.ty.args[1], z3.Select(vb, t)), a.ty.args[1]))
        self.assume(self.dict_wf(out))
        self.assume(z3.And(no >= na, no <= na + nb))
        self.assume(z3.ForAll([k], ho(k) == z3.Or(ha(k), hb(k))))
        self.assume(z3.ForAll([k], z3.Implies(hb(k), z3.Select(vo, k) == bval(k))))
        self.assume(z3.ForAll([k], z3.Implies(z3.And(ha(k), z3.Not(hb(k))), z3.Select(vo, k) == z3.Select(va, k))))
        self.assume(z3.ForAll([k], z3.Implies(ha(k), z3.Select(io, k) == z3.Select(ia, k))))
        self.assume(z3.ForAll([k], z3.Implies(z3.And(hb(k), z3.Not(ha(k))), z3.Select(io, k) >= na)))
        self.assume(z3.ForAll([k, k2], z3.Implies(z3.And(hb(k), z3.Not(ha(k)), hb(k2), z3.Not(ha(k2))),
                                                  (z3.Select(io, k) < z3.Select(io, k2)) == (z3.Select(ib, k) < z3.Select(ib, k2)))))
        return V(a.ty, out.term, a.loc)

    def set_method(self, recv: V, meth: str, n: ast.Call) -> V:
        if meth == 'add':
            x = coerce(self.eval(n.args[0]), recv.ty.args[0])
            self.mutate(recv, V(recv.ty, z3.Store(recv.term, to_smt(x), True), recv.loc))
            return mk_none()
        if meth == 'discard':
            x = coerce(self.eval(n.args[0]), recv.ty.args[0])
            self.mutate(recv, V(recv.ty, z3.Store(recv.term, to_smt(x), False), recv.loc))
            return mk_none()
        raise Unsupported('set.%s' % meth)

    # ------------------------------------------------------------------ contracts at call sites
    def bind_args(self, C: FnContract, n: ast.Call, recv: V | None) -> dict[str, V]:
        names = list(C.params)
        vals: dict[str, V] = {}
        pos = 0
        if recv is not None and names and names[0] in ('self', 'cls'):
            vals[names[0]] = recv
            pos = 1
        for a in n.args:
            if isinstance(a, ast.Starred):
                raise Unsupported('*args at a contract call')
            vals[names[pos]] = self.eval(a)
            pos += 1
        extra = None
        for kw in n.keywords:
            if kw.arg is None:
                if C.varkw is None:
                    raise Unsupported('**kwargs at call of %s' % C.key)
                extra = self.refresh(self.eval(kw.value))
                continue
            if kw.arg not in C.params or kw.arg == C.varkw:
                if C.varkw is None:
                    raise Unsupported('keyword %r at call of %s' % (kw.arg, C.key))
                if extra is None:
                    extra = self.empty_dict(C.params[C.varkw])
                extra = self.dict_set(extra, mk_str(kw.arg), self.eval(kw.value))
                continue
            vals[kw.arg] = self.eval(kw.value)
        if C.varkw is not None:
            vals[C.varkw] = extra if extra is not None else self.empty_dict(C.params[C.varkw])
        return vals

    def defaults_of(self, C: FnContract) -> dict[str, ast.AST]:
        from . import extract
        if C.file is None:
            return {}
        node, _ = extract.find_function(C.file, C.qual)
        a = node.args
        out = {}
        allp = a.posonlyargs + a.args
        for p, d in zip(allp[len(allp) - len(a.defaults):], a.defaults):
            out[p.arg] = d
        for p, d in zip(a.kwonlyargs, a.kw_defaults):
            if d is not None:
                out[p.arg] = d
        return out

    def call_contract(self, C: FnContract, n: ast.Call, recv: V | None, awaited: bool) -> V:
        vals = self.bind_args(C, n, recv)
        dflts = None
        lams = []
        for p, ty in C.params.items():
            if p not in vals:
                if dflts is None:
                    dflts = self.defaults_of(C)
                if p not in dflts:
                    raise Unsupported('missing argument %s for %s' % (p, C.key))
                saved = self.st.env
                try:
                    vals[p] = self.eval(dflts[p])
                finally:
                    self.st.env = saved
            was_lambda = vals[p].ty.kind == 'py' and isinstance(vals[p].py, tuple) and vals[p].py[0] == 'lambda'
            vals[p] = coerce(vals[p], ty)
            if was_lambda and vals[p].ty.kind == 'obj' and not self.spec_mode:
                lams.append(vals[p])
        if C.is_async and not awaited:
            return V(PY, py=('coro', C.key, vals))
        r = self.apply_contract(C, vals)
        for lam in lams:
            # the callee's clauses speak about holds(c, x) in its exit state (it evaluates the predicate after its last suspension
            # point): the lambda's meaning is stated on the heap as it is when the call returns
            self.assume_lambda_semantics(lam)
        return r

    def spec_eval(self, expr: str, env: dict[str, V], entry=None) -> V:
        """Evaluate a contract clause: pure, total, over `env`; old(e) refers to `entry`."""
        node = ast.parse(expr, mode='eval').body
        saved_env, saved_entry, saved_C = self.st.env, self.entry, None
        self.st.env = env
        if entry is not None:
            self.entry = entry
        # inside old(...), the names of this clause/definition (its own parameters) shadow the enclosing function's entry values
        saved_old = None
        if self.old_stack:
            saved_old = self.old_stack[-1]
            self.old_stack[-1] = dict(saved_old, env=env)
        self.spec_mode += 1
        try:
            return self.eval(node)
        finally:
            self.spec_mode -= 1
            self.st.env = saved_env
            self.entry = saved_entry
            if saved_old is not None:
                self.old_stack[-1] = saved_old

    def spec_bool(self, expr: str, env, entry=None):
        return self.truth(self.spec_eval(expr, env, entry))

    def havoc_field(self, field: str, target=None):
        ty = self.field_ty(field)
        arr = self.heap_arr(field)
        self.st.flags['heap_version'] = self.st.flags.get('heap_version', 0) + 1
        if target is None:
            self.st.heap[field] = z3.Const(fresh_name('H.' + field), arr.sort())
        else:
            v = fresh(ty, 'hv_' + field)
            self.st.heap[field] = z3.Store(arr, target, to_smt(v))

    # ------------------------------------------------------------------ frame (checked per atomic segment)
    def frame_baseline(self, kind: str, name: str):
        fb = self.frame_base[kind]
        if name in fb:
            return fb[name]
        return self.entry[kind].get(name)

    def check_frame(self, where: str, env=None, only_fields=None, only_ghosts=None):
        """This task's own writes since the last baseline must stay within the declared modifies clause."""
        C = self.C
        if env is None:
            env = dict(self.entry['env'])
        mods: dict[str, list] = {}
        for f, tgt in C.modifies:
            mods.setdefault(f, []).append(tgt)
        now0 = self.entry['now']
        for f in sorted(k for k in self.st.heap if not k.startswith('$')):
            if f.startswith('$') or (only_fields is not None and f not in only_fields):
                continue
            a0 = self.frame_baseline('heap', f)
            a1 = self.st.heap[f]
            if a0 is None or a0.eq(a1):
                continue
            tg = mods.get(f, [])
            if '*' in tg:
                continue
            r = z3.Const(fresh_name('frame_r'), Ref)
            ante = [smt.born(r) < now0]
            for t in tg:
                ante.append(r != self.spec_eval(t, env).term)
            self.oblige('frame@' + where, f, z3.Implies(z3.And(*ante) if ante else z3.BoolVal(True), z3.Select(a1, r) == z3.Select(a0, r)), ('frame',))
        for g in sorted(self.st.ghost):
            if g in C.ghost_modifies or (only_ghosts is not None and g not in only_ghosts):
                continue
            g0 = self.frame_baseline('ghost', g)
            g1 = self.st.ghost[g]
            if g0 is None or g0.term is g1.term or (z3.is_expr(g0.term) and z3.is_expr(g1.term) and g0.term.eq(g1.term)):
                continue
            self.oblige('frame@' + where, 'ghost:' + g, self.eq(V(g0.ty, g0.term), V(g1.ty, g1.term)), ('frame',))

    def rebase_frame(self, fields, ghosts):
        for f in fields:
            if f in self.st.heap:
                self.frame_base['heap'][f] = self.st.heap[f]
        for g in ghosts:
            if g in self.st.ghost:
                self.frame_base['ghost'][g] = self.st.ghost[g]

    def new_epoch(self, keep=()):
        """Everything not yet materialised is havocked too: fields first read from now on get fresh arrays, except the
        `keep` fields (never written by other tasks), which are pinned to their epoch-0 arrays."""
        for f in keep:
            if f in self.spec.fields:
                self.heap_arr(f)        # materialise in the current epoch chain = same array as before
        self.st.heap['$epoch'] = next(_EPOCH)

    def grow_alloc(self):
        new = z3.Int(fresh_name('now'))
        self.assume(new >= self.st.now)
        self.st.now = new

    def havoc_ghost(self, name: str):
        ty = self.spec.ghosts[name]
        v = fresh(ty, 'ghost_' + name)
        v.loc = ('ghost', name)
        self.lookup(name)  # make sure the initial value exists in snapshots
        self.assume_type(v)
        self.st.ghost[name] = v

    def apply_contract(self, C: FnContract, vals: dict[str, V]) -> V:
        """Modular call: assert requires, havoc the frame, assume ensures / fork on declared exceptions."""
        caller = self.C.key if self.C else '?'
        env = dict(vals)
        for cl in C.requires:
            self.oblige('callsite:%s/requires' % C.key, cl.label, self.spec_bool(cl.expr, env, entry=self.st.snapshot()), cl.tags,
                        meta={'callee': C.key})
        pre = self.st.snapshot()
        pre['env'] = env
        if C.suspends:
            self.suspend('call:' + C.key, cancel=False)
            pre_after = self.st.snapshot()
        for f, tgt in C.modifies:
            if tgt == '*':
                self.havoc_field(f)
            else:
                self.havoc_field(f, self.spec_eval(tgt, env, entry=pre).term)
        for g in C.ghost_modifies:
            self.havoc_ghost(g)
        for key in C.ctx_modifies:
            ty = [t for (k, t, _) in self.spec.ctxvars.values() if k == key][0]
            if key not in self.st.ctx:
                models_ctx = fresh(ty, 'ctx_' + key)
                self.assume_type(models_ctx)
                self.st.ctx[key] = models_ctx
                pre['ctx'].setdefault(key, models_ctx)
                if self.entry is not None:
                    self.entry['ctx'].setdefault(key, models_ctx)
            nv = fresh(ty, 'ctx_' + key)
            self.assume_type(nv)
            self.st.ctx[key] = nv
        if getattr(C, 'allocates', True):
            self.grow_alloc()
        # a suspending callee verified under the same interference has re-established its invariant at its exit
        callee_inv = []
        if C.suspends and self.C is not None and (C.interference or 'default') == (self.C.interference or 'default'):
            I2 = self.spec.interference.get(C.interference or 'default')
            if I2 is not None:
                callee_inv = [self.spec_bool(cl.expr, env) for cl in I2.inv]
        for f in callee_inv:
            self.assume(f)
        skip = self.C.ignore_callee_raises.get(C.key, ()) if self.C is not None else ()
        raises = [rc for rc in C.raises if not (rc.caller_only and rc.label in skip)]
        opts = [None] + [None] * len(raises)
        which = self.choice(opts, 'call:' + C.key) if raises else 0
        if which == 0:
            res = fresh(C.returns, 'ret_' + C.key.split('.')[-1]) if C.returns.cls != 'NoneType' else mk_none()
            self.assume_type(res)
            env2 = dict(env)
            env2['result'] = res
            for cl in list(C.ensures) + list(C.exits_ensure):
                self.assume(self.spec_bool(cl.expr, env2, entry=pre))
            return res
        rc = raises[which - 1]
        if rc.when is not None:
            self.assume(self.spec_bool(rc.when, env, entry=pre))
            if self.ch.fresh_part and not self.ch.feasible(self.st.pc, z3.BoolVal(True)):
                raise DeadPath('exceptional precondition of %s infeasible here' % C.key)
        exc = self.fresh_exc(rc.cls, base='exc_' + C.key.split('.')[-1])
        if 'CancelledError' in ((rc.cls,) if isinstance(rc.cls, str) else rc.cls) and getattr(rc, 'delivered', True):
            self.st.flags['cancelled'] = True
            self.st.trace.append('cancelled-in:' + C.key)
        self.st.flags['last_callee_exc'] = (C.key, rc.label, exc)
        env2 = dict(env)
        env2['raised'] = exc
        for cl in list(rc.ensures) + list(C.exits_ensure):
            self.assume(self.spec_bool(cl.expr, env2, entry=pre))
        raise RaiseSig(exc, 'call:' + C.key + '/' + rc.label)

    def call_property(self, base: V, key: str) -> V:
        C = self.spec.functions[key]
        name = next(iter(C.params))
        if C.spec_term is not None:
            if callable(C.spec_term):
                return C.spec_term(self, base)
            if C.spec_term == '@body':
                return self.body_as_spec(C, name, base)
            return self.spec_eval(C.spec_term, {name: base}, entry=self.entry)
        return self.apply_contract(C, {name: base})

    def body_as_spec(self, C, pname, base: V) -> V:
        """A one-line pure view (`return <expr>`): its own expression, evaluated in spec mode, is its specification."""
        from . import extract
        node, _ = extract.find_function(C.file, C.qual)
        body = [s for s in node.body if not (isinstance(s, ast.Expr) and isinstance(s.value, ast.Constant))]
        if len(body) != 1 or not isinstance(body[0], ast.Return):
            raise Unsupported('%s is no longer a single return expression' % C.key)
        # the same view of the same object in the same heap state is the same value (memoised per path)
        heap = self.cur_heap()
        memo_key = (C.key, base.term.get_id(), self.st.flags.get('heap_version', 0) if heap is self.st.heap else id(heap))
        memo = self.st.flags.setdefault('view_memo', {})
        if memo_key in memo and not getattr(self, 'spec_locals', None) and memo[memo_key][0].eq(base.term):
            return memo[memo_key][1]
        saved = self.st.env
        self.st.env = {pname: base}
        saved_old = None
        if self.old_stack:
            saved_old = self.old_stack[-1]
            self.old_stack[-1] = dict(saved_old, env=self.st.env)
        self.spec_mode += 1
        try:
            r = self.eval(body[0].value)
        finally:
            self.spec_mode -= 1
            self.st.env = saved
            if saved_old is not None:
                self.old_stack[-1] = saved_old
        if not getattr(self, 'spec_locals', None):
            memo[memo_key] = (base.term, r)      # pins the term: z3 reuses AST ids of collected terms
        return r

    def await_value(self, v: V) -> V:
        if v.ty.kind == 'py':
            d = v.py
            if d[0] == 'coro':
                key = d[1]
                if key in self.spec.functions:
                    return self.apply_contract(self.spec.functions[key], d[2])
                if key in self.spec.builtins:
                    return self.spec.builtins[key + '#await'](self, d)
            if d[0] == 'task':
                return self.spec.builtins['Task#await'](self, v)
            if d[0] == 'future':
                return self.spec.builtins['Future#await'](self, v)
        if v.ty.kind == 'obj' and v.ty.cls == 'Task':
            return self.spec.builtins['Task#await'](self, v)
        if v.ty.kind == 'obj':
            key = self.spec.methods.get((v.ty.cls, '__await__'))
            if isinstance(key, str):
                C = self.spec.functions[key]
                name = next(iter(C.params), None) or next(iter(C.free))
                return self.apply_contract(C, {name: v})
        raise Unsupported('await of %r' % (v,))

    # ------------------------------------------------------------------ suspension points (A1, A8)
    def interference(self) -> 'Interference | None':
        name = self.C.interference
        if name is None:
            return self.spec.interference.get('default')
        return self.spec.interference[name]

    def suspend(self, label: str, cancel: bool = True):
        """A point where other tasks may run: check inv, havoc shared state under rely, fork cancellation."""
        if self.spec_mode:
            raise Unsupported('suspension inside a specification')
        I = self.interference()
        k = self.counter('await')
        self.st.trace.append('suspend#%d:%s' % (k, label))
        if I is not None:
            env = dict(self.st.env)
            for cl in I.inv:
                self.oblige('inv@await#%d' % k, cl.label, self.spec_bool(cl.expr, env), cl.tags)
            pre = self.st.snapshot()
            fields = [f for f in (list(self.st.heap) if '*' in I.havoc else I.havoc) if f not in I.keep and not f.startswith('$')]
            self.check_frame('await#%d' % k, None, only_fields=set(fields), only_ghosts=set(I.havoc_ghost))
            for f in fields:
                self.havoc_field(f)
            if '*' in I.havoc:
                self.new_epoch(I.keep)
            self.grow_alloc()   # allocation only grows
            for g in I.havoc_ghost:
                self.havoc_ghost(g)
            self.rebase_frame(fields, I.havoc_ghost)
            for cl in I.rely:
                self.assume(self.spec_bool(cl.expr, env, entry=pre))
            for cl in I.inv:
                self.assume(self.spec_bool(cl.expr, env))
        self.seg = self.st.snapshot()
        if cancel and self.C.cancellable:
            if self.choice([None, None], 'cancel?') == 1:
                self.st.trace.append('cancelled@await#%d' % k)
                self.st.flags['cancelled'] = True
                exc = self.fresh_exc('CancelledError', base='cancel', exact=True)
                raise RaiseSig(exc, 'cancel@await#%d:%s' % (k, label))

    # ------------------------------------------------------------------ comprehensions -> spec terms (3.5)
    def comp_source(self, gen: ast.comprehension) -> V:
        if gen.is_async:
            raise Unsupported('async comprehension')
        src = self.refresh(self.eval(gen.iter))
        src = self.as_list(src)
        return src

    def as_list(self, v: V) -> V:
        if v.ty.kind == 'list':
            return v
        if v.ty.kind == 'dict':
            return self.mk_list(v.ty.args[0], self.dict_parts(v)[0], self.dict_parts(v)[1])
        raise Unsupported('iteration over %r' % (v.ty,))

    def bind_target(self, target: ast.AST, val: V, env: dict):
        if isinstance(target, ast.Name):
            env[target.id] = val
        elif isinstance(target, (ast.Tuple, ast.List)):
            if val.ty.kind != 'tuple' or len(val.term) != len(target.elts):
                raise Unsupported('destructuring of %r' % (val.ty,))
            for t, x in zip(target.elts, val.term):
                self.bind_target(t, x, env)
        else:
            raise Unsupported('binding target %s' % type(target).__name__)

    def comp_parts(self, elt_nodes, gen: ast.comprehension):
        """Return (src, j, [elt terms as V at S[j]], filter condition at S[j])."""
        src = self.comp_source(gen)
        j = z3.Int(fresh_name('cj'))
        x = self.list_at(src, j)
        saved = self.st.env
        env = dict(saved)
        self.bind_target(gen.target, x, env)
        self.st.env = env
        self.spec_mode += 1
        try:
            elts = [self.eval(e) for e in elt_nodes]
            cond = z3.And(*[self.truth(self.eval(c)) for c in gen.ifs]) if gen.ifs else None
        finally:
            self.spec_mode -= 1
            self.st.env = saved
        return src, j, elts, cond

    def filtered(self, src: V, j, elt: V, cond) -> V:
        """[elt(S[j]) for j if cond(S[j])]: fresh list with index maps sigma (result->source) and rho (source->result)."""
        n = self.list_len(src)
        et = elt.ty
        if cond is None:
            return self.mk_list(et, z3.Lambda([j], to_smt(elt)), n)
        out = fresh(Ty('list', (et,)), 'filt')
        m = self.list_len(out)
        oel = self.list_elems(out)
        sig = z3.Const(fresh_name('sigma'), z3.ArraySort(z3.IntSort(), z3.IntSort()))
        rho = z3.Const(fresh_name('rho'), z3.ArraySort(z3.IntSort(), z3.IntSort()))
        k, k2 = z3.Int(fresh_name('k')), z3.Int(fresh_name('k'))
        sk = z3.Select(sig, k)
        self.assume(z3.And(0 <= m, m <= n))
        self.assume(z3.ForAll([k], z3.Implies(z3.And(0 <= k, k < m), z3.And(
            0 <= sk, sk < n, z3.substitute(cond, (j, sk)), z3.Select(oel, k) == z3.substitute(to_smt(elt), (j, sk)), z3.Select(rho, sk) == k)),
            patterns=[z3.Select(sig, k), z3.Select(oel, k)]))
        # alternative triggers: a source element mentioned by the filter condition (the proof "S[j] passes the filter, so it is in the
        # result" starts from such a term; rho[j] itself never occurs in a goal)
        alt = select_patterns(z3.simplify(cond), j) if os.environ.get('PYVC_ALT_PATTERNS', '1') == '1' else []
        self.assume(z3.ForAll([j], z3.Implies(z3.And(0 <= j, j < n, cond), z3.And(0 <= z3.Select(rho, j), z3.Select(rho, j) < m, z3.Select(sig, z3.Select(rho, j)) == j)),
                                 patterns=[z3.Select(rho, j)] + alt))
        self.assume(z3.ForAll([k, k2], z3.Implies(z3.And(0 <= k, k < k2, k2 < m), z3.Select(sig, k) < z3.Select(sig, k2)),
                                 patterns=[z3.MultiPattern(z3.Select(sig, k), z3.Select(sig, k2))]))
        out.py = ('filtered', sig, rho, src, j, cond)
        return out

    def e_ListComp(self, n):
        if len(n.generators) != 1:
            raise Unsupported('nested comprehension')
        src, j, elts, cond = self.comp_parts([n.elt], n.generators[0])
        return self.filtered(src, j, elts[0], cond)

    def e_GeneratorExp(self, n):
        return self.e_ListComp(n)

    def e_DictComp(self, n):
        if len(n.generators) != 1:
            raise Unsupported('nested comprehension')
        gen = n.generators[0]
        # {k: f(v) for k, v in d.items() [if ...]}: the keys are a subsequence of the keys of a Python dict, hence pairwise distinct (A10)
        keys_of_a_dict = (isinstance(gen.iter, ast.Call) and isinstance(gen.iter.func, ast.Attribute) and gen.iter.func.attr == 'items' and not gen.iter.args
                          and isinstance(gen.target, ast.Tuple) and len(gen.target.elts) == 2 and isinstance(gen.target.elts[0], ast.Name)
                          and isinstance(n.key, ast.Name) and n.key.id == gen.target.elts[0].id)
        src, j, elts, cond = self.comp_parts([n.key, n.value], gen)
        kv = V(Ty('tuple', (elts[0].ty, elts[1].ty)), (elts[0], elts[1]))
        pairs = self.filtered(src, j, kv, cond)
        return self.dict_from_pairs(pairs, elts[0].ty, elts[1].ty, distinct_known=keys_of_a_dict)

    def dict_from_pairs(self, pairs: V, kt: Ty, vt: Ty, distinct_known=False) -> V:
        """dict built from a list of (k, v) with pairwise distinct keys (checked): order = list order."""
        t = Ty('dict', (kt, vt))
        s = t.sort()
        n = self.list_len(pairs)
        pel = self.list_elems(pairs)
        ts = pairs.ty.args[0].sort()
        i, i2 = z3.Int(fresh_name('i')), z3.Int(fresh_name('i'))
        keyat = lambda ix: ts.accessor(0, 0)(z3.Select(pel, ix))
        valat = lambda ix: ts.accessor(0, 1)(z3.Select(pel, ix))
        distinct = z3.ForAll([i, i2], z3.Implies(z3.And(0 <= i, i < i2, i2 < n), keyat(i) != keyat(i2)))
        if distinct_known:
            self.assume(distinct)
        elif not self.spec_mode:
            self.oblige('safety', 'dictcomp_keys_distinct', distinct, ('safety',))
        out = fresh(t, 'dcomp')
        keys, cnt, has, val, idx = self.dict_parts(out)
        kk = z3.Const(fresh_name('k'), kt.sort())
        self.assume(cnt == n)
        alt = select_patterns(z3.simplify(keyat(i)), i) if os.environ.get('PYVC_ALT_PATTERNS', '1') == '1' else []
        self.assume(z3.ForAll([i], z3.Implies(z3.And(0 <= i, i < n), z3.And(z3.Select(keys, i) == keyat(i),
                                                                                  z3.Select(val, keyat(i)) == valat(i), z3.Select(idx, keyat(i)) == i)),
                                 patterns=[z3.Select(keys, i)] + alt))
        out.py = ('from_pairs', pairs)
        return out
