"""Mechanical extraction of the real functions from /repo's working tree (re-read on every run)."""
from __future__ import annotations

import ast
import hashlib
import os

REPO = os.environ.get('PYVC_REPO', '/repo')

_cache: dict[str, tuple[str, ast.Module]] = {}


def load(relpath: str) -> tuple[str, ast.Module]:
    path = os.path.join(REPO, relpath)
    if path not in _cache:
        src = open(path, encoding='utf-8').read()
        _cache[path] = (src, ast.parse(src, filename=path))
    return _cache[path]


def find_function(relpath: str, qual: str):
    """qual like 'EventBus.dispatch' or 'retry.<locals>.decorator.<locals>.wrapper' or 'BaseEvent.__await__.<locals>.wait_for...'."""
    src, mod = load(relpath)
    parts = [p for p in qual.split('.') if p != '<locals>']
    node: ast.AST = mod
    for p in parts:
        found = None
        for child in ast.walk(node) if not isinstance(node, (ast.Module, ast.ClassDef)) else node.body:
            if isinstance(child, (ast.FunctionDef, ast.AsyncFunctionDef, ast.ClassDef)) and child.name == p and child is not node:
                found = child      # the last definition wins (typing.overload stubs precede the implementation)
        if found is None:
            raise KeyError('function %s not found in %s (at %r)' % (qual, relpath, p))
        node = found
    seg = ast.get_source_segment(src, node) or ''
    info = {
        'file': relpath,
        'qualname': qual,
        'lineno': node.lineno,
        'end_lineno': node.end_lineno,
        'sha256': hashlib.sha256(seg.encode()).hexdigest(),
    }
    return node, info


def module_functions(relpath: str):
    """Yield (qualname, node) for every def in the module, nested ones with <locals>."""
    _, mod = load(relpath)

    def rec(node, prefix, in_func):
        for child in ast.iter_child_nodes(node):
            if isinstance(child, (ast.FunctionDef, ast.AsyncFunctionDef)):
                q = prefix + ('<locals>.' if in_func else '') + child.name
                yield q, child
                yield from rec(child, q + '.', True)
            elif isinstance(child, ast.ClassDef):
                yield from rec(child, prefix + ('<locals>.' if in_func else '') + child.name + '.', False)
            elif not isinstance(child, (ast.Lambda,)):
                yield from rec(child, prefix, in_func)

    yield from rec(mod, '', False)
