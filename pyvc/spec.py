"""Contract data structures (filled by the sidecar files under /verif/contracts)."""
from __future__ import annotations

from .values import Ty, parse_ty


class Clause:
    __slots__ = ('label', 'expr', 'tags')

    def __init__(self, label, expr, tags=()):
        self.label = label
        self.expr = expr
        self.tags = tuple(tags) if not isinstance(tags, str) else (tags,)

    @staticmethod
    def of(x):
        if isinstance(x, Clause):
            return x
        if isinstance(x, str):
            return Clause(x[:40], x)
        return Clause(*x)


class RaisesClause:
    def __init__(self, cls, when=None, ensures=(), label=None, tags=(), origin=None, caller_only=False, delivered=True):
        self.cls = cls                    # class name, or tuple of names
        self.when = when                  # expr over the pre-state (old values), or None
        self.ensures = [Clause.of(e) for e in ensures]
        self.label = label or (cls if isinstance(cls, str) else '|'.join(cls))
        self.tags = tuple(tags) if not isinstance(tags, str) else (tags,)
        self.origin = origin
        self.delivered = delivered     # for CancelledError clauses: False = raised by user code itself, the task was not cancelled
        self.caller_only = caller_only   # over-approximation offered to callers; not accepted when verifying the body


class FnContract:
    def __init__(self, key, file=None, qual=None, params=None, free=None, returns='any', is_async=False, suspends=None,
                 requires=(), ensures=(), raises=(), modifies=(), ghost_modifies=(), loops=None, callsites=None,
                 locals=None, cancellable=None, interference=None, assume_asserts=(), trusted=False, pure=False,
                 self_cls=None, notes='', path_budget=4000, spec_term=None, exits_ensure=(), varkw=None, allocates=True, cancel_must_propagate=False, exit_hook=None, ctx_modifies=(), raises_tags=(), wf_fields=(), ignore_callee_raises=None, assumes=(), spawns=(), typed_elements=False, any_containers=False):
        self.key = key
        self.file = file
        self.qual = qual
        self.params = {k: parse_ty(v) for k, v in (params or {}).items()}
        self.free = {k: parse_ty(v) for k, v in (free or {}).items()}
        self.returns = parse_ty(returns)
        self.is_async = is_async
        self.suspends = is_async if suspends is None else suspends
        self.requires = [Clause.of(c) for c in requires]
        self.ensures = [Clause.of(c) for c in ensures]
        self.raises = list(raises)
        self.modifies = list(modifies)          # [(field, target_expr | '*')]
        self.ghost_modifies = list(ghost_modifies)
        self.loops = loops or {}
        self.callsites = callsites or {}
        self.locals = {k: parse_ty(v) for k, v in (locals or {}).items()}
        self.cancellable = self.suspends if cancellable is None else cancellable
        self.interference = interference       # name of an interference spec, or None -> default
        self.assume_asserts = list(assume_asserts)
        self.trusted = trusted                 # contract assumed, body not verified (listed in evidence)
        self.pure = pure
        self.self_cls = self_cls
        self.notes = notes
        self.path_budget = path_budget
        self.spec_term = spec_term   # pure property: expression over `self` (str) or callable(ex, selfV) -> V
        self.varkw = varkw
        self.cancel_must_propagate = cancel_must_propagate
        self.exit_hook = exit_hook
        self.ignore_callee_raises = ignore_callee_raises or {}   # callee key -> labels of its caller-only (over-approximate) raises clauses not explored here
        self.typed_elements = typed_elements   # state the class of list elements read under quantifiers (needed where object identity is derived from id())
        self.any_containers = any_containers   # truthiness of Any-typed dict/list objects is their non-emptiness
        self.spawns = tuple(spawns)      # contract keys of the coroutines this function starts as tasks (checked at each create_task)
        self.assumes = [Clause.of(c) for c in assumes]   # global assumptions (trusted base) used by the body proof; not a caller obligation
        self.wf_fields = tuple(wf_fields)   # dict-valued fields whose insertion-order representation invariant is assumed on every read
        self.raises_tags = tuple(raises_tags)   # property tags of the `only declared exceptions escape` obligation
        self.ctx_modifies = list(ctx_modifies)   # context variables (keys) of the current task the function may leave changed
        self.allocates = allocates
        self.exits_ensure = [Clause.of(c) for c in exits_ensure]   # must hold on every exit (normal or exceptional)


class Interference:
    """What other tasks may do while this one is suspended (rely), and what must hold at suspension points (inv)."""

    def __init__(self, name, havoc=(), havoc_ghost=(), rely=(), inv=(), keep=()):
        self.name = name
        self.havoc = list(havoc)          # heap fields havocked at a suspension point ('*' = all)
        self.havoc_ghost = list(havoc_ghost)
        self.rely = [Clause.of(c) for c in rely]   # two-state, assumed after havoc (old() = before)
        self.inv = [Clause.of(c) for c in inv]     # asserted before, assumed after
        self.keep = list(keep)            # fields never havocked even with '*'


class Spec:
    def __init__(self):
        self.fields: dict[str, Ty] = {}
        self.functions: dict[str, FnContract] = {}
        self.methods: dict[tuple[str, str], object] = {}      # (cls, name) -> contract key | builtin callable
        self.properties: dict[tuple[str, str], str] = {}      # (cls, attr) -> contract key
        self.globals: dict[str, dict[str, object]] = {}       # module file -> name -> descriptor
        self.builtins: dict[str, object] = {}                 # dotted name -> callable(ex, call, args, kwargs, awaited)
        self.specfuns: dict[str, object] = {}                 # name -> callable(ex, *args) -> V   (spec-only functions)
        self.interference: dict[str, Interference] = {}
        self.ghosts: dict[str, Ty] = {}
        self.ctxvars: dict[str, tuple[str, Ty, object]] = {}  # global name -> (key, type, default)
        self.subclasses: dict[str, tuple[str, ...]] = {}
        self.injective_fstrings: set[str] = set()

    def define(self, name, params, expr, opaque=False):
        """A spec-only function given by an expression of the contract language over its parameters.

        opaque=True (boolean definitions over reference-typed parameters that read only the heap): an application whose arguments
        mention a quantified variable is encoded as an uninterpreted predicate of (arguments, the heap arrays the expansion
        reads); every application on ground arguments stays the expansion itself and contributes the defining equation
        `pred(args, arrays) == expansion` - a conservative extension: the predicate is constrained by nothing else. This keeps the
        bodies of quantified invariants small; what a proof needs about a particular object comes from its ground instance."""
        def f(ex, *args):
            if len(args) != len(params):
                raise ValueError('spec function %s expects %d arguments' % (name, len(params)))
            if not opaque:
                return ex.spec_eval(expr, dict(zip(params, args)), entry=ex.entry)
            import z3
            from .smt import Ref
            from .values import mk_bool
            logs = getattr(ex, 'reads_log', None)
            if logs is None:
                logs = ex.reads_log = []
            log = []
            logs.append(log)
            try:
                val = ex.spec_eval(expr, dict(zip(params, args)), entry=ex.entry)
            finally:
                logs.pop()
            if logs:
                logs[-1].extend(log)
            arrays = {}
            for field, arr in log:
                if field in arrays and not arrays[field].eq(arr):
                    return val                       # reads two states of one field: stays transparent
                arrays[field] = arr
            terms = [a.term for a in args]
            if val.ty.kind != 'bool' or not all(z3.is_expr(t) and t.sort() == Ref for t in terms):
                return val
            arrs = [arrays[k] for k in sorted(arrays)]
            fn = z3.Function('def_%s<%s>' % (name, ','.join(sorted(arrays))), *([Ref] * len(terms) + [a.sort() for a in arrs] + [z3.BoolSort()]))
            app = fn(*(terms + arrs))
            bound = {b.get_id() for bs in getattr(ex, 'qbound', []) for b in bs}
            if bound:
                from .calls import _free_consts
                if any(c.get_id() in bound for t in terms for c in _free_consts(t)):
                    return mk_bool(app)
            ex.assume(app == val.term)
            return val
        self.specfuns[name] = f
        self.definitions = getattr(self, 'definitions', {})
        self.definitions[name] = (params, expr)

    def field(self, name, ty):
        self.fields[name] = parse_ty(ty)

    def fn(self, key, **kw):
        c = FnContract(key, **kw)
        self.functions[key] = c
        return c
