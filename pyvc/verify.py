"""Function-by-function verification driver: every path of the real AST against the sidecar contract."""
from __future__ import annotations

import os
import ast
import time
import traceback

import z3

from . import extract, smt
from .core import BreakSig, Chooser, ContinueSig, DeadPath, PathBudget, PathState, RaiseSig, ReturnSig, Signal
from .smt import NONE, Obligation, Ref
from .spec import FnContract, Spec
from .stmts import StmtMixin
from .values import (ANY, BOOL, INT, PY, REAL, STR, Ty, Unsupported, V, coerce, fresh, fresh_name, mk_bool, mk_int,
                     mk_none, obj, to_smt)


class Exec(StmtMixin):
    pass


class FnResult:
    def __init__(self, key):
        self.key = key
        self.info = {}
        self.obligations: list[Obligation] = []
        self.canaries: list[Obligation] = []
        self.paths = 0
        self.completed = 0
        self.exits = {'normal': 0, 'raise': 0}
        self.refused: str | None = None
        self.notes: list[str] = []
        self.dropped: list[str] = []
        self.time = 0.0
        self.feas_checks = 0


def number_loops(fn_node) -> dict[int, int]:
    out: dict[int, int] = {}

    def rec(nodes):
        for n in nodes:
            if isinstance(n, (ast.FunctionDef, ast.AsyncFunctionDef, ast.ClassDef, ast.Lambda)):
                continue
            if isinstance(n, (ast.For, ast.While, ast.AsyncFor)):
                out[id(n)] = len(out)
            for field in ('body', 'orelse', 'finalbody'):
                rec(getattr(n, field, []) or [])
            if isinstance(n, ast.Try):
                for h in n.handlers:
                    rec(h.body)

    rec(fn_node.body)
    return out


def verify_function(spec: Spec, key: str, base_axioms=None) -> FnResult:
    C = spec.functions[key]
    res = FnResult(key)
    t0 = time.time()
    if C.trusted or C.file is None:
        res.refused = None
        res.notes.append('trusted contract (body not verified)')
        return res
    try:
        node, info = extract.find_function(C.file, C.qual)
    except KeyError as e:
        res.refused = 'extraction failed: %s' % e
        return res
    res.info = info
    ex = Exec(spec)
    ex.C = C
    ex.loop_index = number_loops(node)
    ex.fn_node = node
    ex.ch = Chooser((base_axioms if base_axioms is not None else smt.class_axioms()), budget=C.path_budget)
    try:
        while ex.ch.next_path():
            run_path(ex, C, node, res)
    except Unsupported as e:
        res.refused = 'unsupported: %s (line %s)' % (e, ex.cur_line)
    except PathBudget as e:
        res.refused = 'path budget exceeded: %s' % e
    except Exception as e:  # engine error: never turn into a pass
        res.refused = 'engine error: %s\n%s' % (e, traceback.format_exc()[-1500:])
    res.paths = ex.ch.paths
    res.feas_checks = ex.ch.feas_checks
    res.obligations = ex.obligations
    res.notes = sorted(set(ex.notes))
    res.dropped = sorted(ex.dropped)
    res.time = time.time() - t0
    return res


def bind_params(ex: Exec, C: FnContract, node) -> None:
    a = node.args
    names = [p.arg for p in a.posonlyargs + a.args + a.kwonlyargs]
    for nm in names:
        if nm not in C.params:
            raise Unsupported('parameter %r of %s has no type in the contract' % (nm, C.key))
    extra = [p for p in C.params if p not in names and p != (a.kwarg.arg if a.kwarg else None) and p != (a.vararg.arg if a.vararg else None)]
    if extra:
        raise Unsupported('contract of %s names parameters %r that the real function does not have' % (C.key, extra))
    for nm, ty in list(C.params.items()) + list(C.free.items()):
        if ty.kind == 'py':
            ex.st.env[nm] = V(PY, py=('opaque', nm))
            continue
        v = fresh(ty, 'p_' + nm)
        if ty.kind in ('list', 'dict', 'set'):
            v.loc = ('local', nm)
        ex.assume_type(v)
        if ty.kind == 'obj' and ty.cls not in ('any', 'NoneType', 'optint', 'optreal', 'optbool', 'str'):
            ex.assume(z3.Or(v.term == NONE, ex.is_alloc(v.term)))
        ex.st.env[nm] = v
    for special in (a.vararg, a.kwarg):
        if special is not None and special.arg not in C.params:
            ex.st.env[special.arg] = V(PY, py=('opaque', special.arg))


def run_path(ex: Exec, C: FnContract, node, res: FnResult):
    st = PathState()
    ex.st = st
    ex.counters = {}
    ex.try_stack = []
    ex.loop_old_stack = []
    ex.old_stack = []
    ex.spec_mode = 0
    ex.entry = None
    ex.seg = None
    ex.cur_line = node.lineno
    try:
        bind_params(ex, C, node)
        for g in ex.spec.ghosts:
            ex.lookup(g)
        ex.entry = st.snapshot()
        ex.seg = ex.entry
        ex.frame_base = {'heap': {}, 'ghost': {}}
        env0 = dict(st.env)
        for cl in list(C.requires) + list(C.assumes):
            ex.assume(ex.spec_bool(cl.expr, env0))
        I = ex.interference()
        if I is not None and C.suspends:
            for cl in I.inv:
                ex.assume(ex.spec_bool(cl.expr, env0))
        outcome = 'normal'
        result = mk_none()
        exc = None
        try:
            ex.exec_block(node.body)
        except ReturnSig as r:
            result = r.val
        except RaiseSig as r:
            outcome, exc = 'raise', r
        except (BreakSig, ContinueSig):
            raise Unsupported('break/continue outside loop')
        res.completed += 1
        res.exits[outcome] += 1
        check_exit(ex, C, env0, outcome, result, exc, res)
    except DeadPath:
        return


def check_exit(ex: Exec, C: FnContract, env0, outcome, result: V, exc, res: FnResult):
    st = ex.st
    env = dict(env0)
    for k, v in ex.entry['env'].items():
        env[k] = v
    if outcome == 'normal':
        if result.ty.kind == 'py':
            result = V(C.returns if C.returns.kind != 'py' else ANY, z3.Const(fresh_name('pyret'), Ref)) if C.returns.kind == 'obj' else result
        else:
            try:
                result = coerce(result, C.returns)
            except Unsupported:
                pass
        env['result'] = result
        st.trace.append('exit:return')
        for cl in C.ensures:
            ex.oblige('ensures', cl.label, ex.spec_bool(cl.expr, env), cl.tags)
        for cl in getattr(C, 'probe_ensures', ()):
            # checked at the exits of this body only; never offered to callers (must-fail probes)
            ex.oblige('ensures', cl.label, ex.spec_bool(cl.expr, env), cl.tags)
    else:
        e = exc.exc
        env['raised'] = e
        st.trace.append('exit:raise(%s)' % exc.origin)
        matches = []
        body_raises = [rc for rc in C.raises if not rc.caller_only]
        for rc in body_raises:
            names = (rc.cls,) if isinstance(rc.cls, str) else rc.cls
            m = z3.Or(*[smt.issub(smt.tag(e.term), smt.CLASSES[n]) for n in names])
            if rc.when is not None:
                m = z3.And(m, ex.spec_bool(rc.when, env))
            if rc.origin is not None:
                m = z3.And(m, z3.BoolVal(exc.origin.startswith(rc.origin)))
            matches.append(m)
        ex.oblige('raises', 'only_declared', z3.Or(*matches) if matches else z3.BoolVal(False), ('raises',) + C.raises_tags,
                  meta={'origin': exc.origin})
        for rc, m in zip(body_raises, matches):
            for cl in rc.ensures:
                ex.oblige('raises:' + rc.label, cl.label, z3.Implies(m, ex.spec_bool(cl.expr, env)), cl.tags or rc.tags)
    for cl in C.exits_ensure:
        ex.oblige('exit', cl.label, ex.spec_bool(cl.expr, env), cl.tags)
    if C.exit_hook is not None:
        C.exit_hook(ex, outcome, result, exc)
    if C.cancel_must_propagate:
        # a CancelledError delivered to this task at one of its suspension points must leave the function as CancelledError
        ok = True
        if st.flags.get('cancelled'):
            ok = outcome == 'raise'
            if ok:
                ex.oblige('raises', 'cancel_not_swallowed', smt.issub(smt.tag(exc.exc.term), smt.CLASSES['CancelledError']), ('cancel',))
        if not ok:
            ex.oblige('raises', 'cancel_not_swallowed', z3.BoolVal(False), ('cancel',))
    I = ex.interference()
    if I is not None and C.suspends:
        for cl in I.inv:
            ex.oblige('inv@exit', cl.label, ex.spec_bool(cl.expr, env), cl.tags)
    ex.check_frame('exit', env)
    for key, v1 in sorted(ex.st.ctx.items()):
        if key in C.ctx_modifies:
            continue
        v0 = ex.entry['ctx'].get(key)
        if v0 is None or v0.term is v1.term or (z3.is_expr(v0.term) and z3.is_expr(v1.term) and v0.term.eq(v1.term)):
            continue
        ex.oblige('frame@exit', 'ctx:' + key, ex.eq(v0, v1), ('frame',))
    if ex.ch.fresh_part and (len(res.canaries) < 3 or (len(res.canaries) < 12 and (res.completed % 7 == 0 or not any(c.name.endswith(outcome) for c in res.canaries)))):
        res.canaries.append(Obligation('%s/canary:%s' % (C.key, outcome), st.pc, z3.BoolVal(False), ('canary',), {'trace': list(st.trace)}))


# ---------------------------------------------------------------------------------------------
# parallel driver: one task = one path (identified by its decision prefix), executed and discharged in a worker process

_W: dict = {}


def _worker_path(args):
    key, prefix = args
    spec, axioms, timeout_ms = _W['spec'], _W['axioms'], _W['timeout_ms']
    C = spec.functions[key]
    t0 = time.time()
    out = {'key': key, 'prefix': prefix, 'new': [], 'records': [], 'canaries': [], 'refused': None, 'completed': 0, 'exits': {'normal': 0, 'raise': 0},
           'notes': [], 'dropped': [], 'feas': 0}
    try:
        node, info = extract.find_function(C.file, C.qual)
        ex = Exec(spec)
        ex.C = C
        ex.loop_index = number_loops(node)
        ex.fn_node = node
        ex.ch = Chooser(axioms, budget=10 ** 9)
        ex.ch.pending = [list(prefix)]
        res = FnResult(key)
        ex.ch.next_path()
        run_path(ex, C, node, res)
        out['new'] = [list(p) for p in ex.ch.pending]
        out['completed'] = res.completed
        out['exits'] = res.exits
        out['notes'] = sorted(set(ex.notes))
        out['dropped'] = sorted(ex.dropped)
        out['feas'] = ex.ch.feas_checks
        import zlib
        keep_canary = zlib.crc32(repr(prefix).encode()) % 6 == 0 or len(prefix) <= 4
        pid = _W.get('pid')
        mine = ex.obligations
        if pid:
            import re as _re
            # only the clauses of the property being checked (and the untagged structural ones) are discharged
            if pid == 'VACUITY':
                mine = [o for o in ex.obligations if 'VACUITY' in o.tags]       # the must-fail probe only
            else:
                mine = [o for o in ex.obligations if pid in o.tags or not any(_re.fullmatch(r'C\d\d', t) for t in o.tags)]
        obls = mine + (res.canaries if keep_canary else [])
        smt._OBLS, smt._AXIOMS, smt._TIMEOUT_MS = obls, axioms + smt.literal_axioms(), timeout_ms
        for i, ob in enumerate(obls):
            _, verdict, model, t, solver, reason = smt._check_one(i)
            rec = {'name': ob.name, 'tags': list(ob.tags), 'verdict': verdict, 'model': model, 'time': t, 'solver': solver, 'reason': reason,
                   'line': ob.meta.get('line'), 'trace': ob.meta.get('trace'), 'origin': ob.meta.get('origin')}
            (out['canaries'] if 'canary' in ob.tags else out['records']).append(rec)
    except Unsupported as e:
        out['refused'] = 'unsupported: %s' % e
    except Exception as e:
        out['refused'] = 'engine error: %s\n%s' % (e, traceback.format_exc()[-1500:])
    out['time'] = time.time() - t0
    return out


class Rec:
    """Picklable obligation record (what check.py aggregates)."""
    def __init__(self, d):
        self.__dict__.update(d)
        self.meta = {'line': d.get('line'), 'trace': d.get('trace'), 'origin': d.get('origin')}
        self.tags = tuple(d.get('tags', ()))


def verify_many(spec: Spec, keys, axioms, timeout_ms=10000, procs=16, pid=None) -> list:
    """Verify several functions at once: every path of every function is a task of one fork pool."""
    import multiprocessing
    results = {}
    t0 = time.time()
    _W.update(spec=spec, axioms=axioms, timeout_ms=timeout_ms, pid=pid)
    todo = []
    for key in keys:
        C = spec.functions[key]
        res = FnResult(key)
        results[key] = res
        if C.trusted or C.file is None:
            res.notes.append('trusted contract (body not verified)')
            continue
        try:
            node, info = extract.find_function(C.file, C.qual)
        except KeyError as e:
            res.refused = 'extraction failed: %s' % e
            continue
        res.info = info
        todo.append(key)
    if todo:
        procs = int(os.environ.get('PYVC_PROCS', procs))
        pool = multiprocessing.get_context('fork').Pool(procs)
        try:
            limit = max(300.0, 15.0 * timeout_ms / 1000.0)      # wall-clock limit of one path task (symbolic execution + its obligations)
            pending = [(k, pool.apply_async(_worker_path, ((k, []),)), [], time.time(), 0) for k in todo]
            submitted = {k: 1 for k in todo}
            notes = {k: set() for k in todo}
            dropped = {k: set() for k in todo}
            while pending:
                ready = [e for e in pending if e[1].ready()]
                if not ready:
                    pending[0][1].wait(0.02)
                    now = time.time()
                    late = [e for e in pending if now - e[3] > limit]
                    if late:
                        # a worker died (the task is lost) or a solver call ignores its timeout: resubmit once, then give up on that path
                        lids = set(id(e[1]) for e in late)
                        pending = [e for e in pending if id(e[1]) not in lids]
                        for key, h, pfx, t_sub, attempt in late:
                            import sys as _sys
                            print('pyvc: path task of %s (prefix %r) exceeded %.0f s, attempt %d' % (key, pfx, limit, attempt), file=_sys.stderr)
                            if attempt == 0:
                                pending.append((key, pool.apply_async(_worker_path, ((key, pfx),)), pfx, time.time(), 1))
                            else:
                                results[key].refused = results[key].refused or 'a path task did not return within %.0f s twice (worker lost or solver overrun)' % limit
                    continue
                rs = set(id(e[1]) for e in ready)
                pending = [e for e in pending if id(e[1]) not in rs]
                for key, h, _pfx, _t, _att in ready:
                    res = results[key]
                    C = spec.functions[key]
                    try:
                        out = h.get()
                    except Exception as e:
                        res.refused = res.refused or 'worker error: %r' % (e,)
                        continue
                    res.paths += 1
                    res.time += out.get('time', 0.0)
                    if out['refused'] and not res.refused:
                        res.refused = out['refused']
                    res.completed += out['completed']
                    for k in res.exits:
                        res.exits[k] += out['exits'][k]
                    res.feas_checks += out['feas']
                    notes[key].update(out['notes'])
                    dropped[key].update(out['dropped'])
                    res.obligations += [Rec(r) for r in out['records']]
                    if len(res.canaries) < 24:
                        res.canaries += [Rec(r) for r in out['canaries']]
                    if res.refused:
                        continue
                    for pfx in out['new']:
                        if submitted[key] >= C.path_budget:
                            res.refused = 'path budget exceeded: more than %d paths' % C.path_budget
                            break
                        submitted[key] += 1
                        pending.append((key, pool.apply_async(_worker_path, ((key, pfx),)), pfx, time.time(), 0))
            for k in todo:
                results[k].notes = sorted(notes[k])
                results[k].dropped = sorted(dropped[k])
        finally:
            pool.terminate()
            try:
                os.unlink(os.path.join(os.environ.get('PYVC_TMP', '/var/tmp'), 'open_clauses.%d' % os.getpid()))   # the workers' shared note
            except OSError:
                pass
    return [results[k] for k in keys]


def verify_function_parallel(spec: Spec, key: str, axioms, timeout_ms=10000, procs=16, pool=None) -> FnResult:
    return verify_many(spec, [key], axioms, timeout_ms, procs)[0]
