"""Axiomatised builtins and asyncio primitives (trusted base A1-A10 of DESIGN.md section 4)."""
from __future__ import annotations

import ast

import z3

from . import smt
from .core import DeadPath, RaiseSig
from .smt import NONE, Ref
from .spec import Spec
from .values import (ANY, BOOL, INT, PY, REAL, STR, Ty, Unsupported, V, coerce, fresh, fresh_name, from_smt, mk_bool,
                     mk_int, mk_none, mk_real, mk_str, obj, parse_ty, to_smt)


def kw(n: ast.Call, name: str):
    for k in n.keywords:
        if k.arg == name:
            return k.value
    return None


def arg(ex, n: ast.Call, i: int, name: str | None = None, default=None):
    if len(n.args) > i:
        return ex.eval(n.args[i])
    if name is not None:
        k = kw(n, name)
        if k is not None:
            return ex.eval(k)
    return default


# ---------------------------------------------------------------------------------------------
# pure builtins

def b_len(ex, n, awaited, recv=None):
    v = ex.refresh(ex.eval(n.args[0]))
    if v.ty.kind == 'list':
        return mk_int(ex.list_len(v))
    if v.ty.kind == 'dict':
        return mk_int(ex.dict_parts(v)[1])
    if v.ty.kind == 'tuple':
        return mk_int(len(v.term))
    if v.ty.kind == 'obj':
        f = z3.Function('len_of', Ref, z3.IntSort())
        ex.assume(f(v.term) >= 0)
        return mk_int(f(v.term))
    raise Unsupported('len of %r' % (v.ty,))


def _minmax(is_max):
    def f(ex, n, awaited, recv=None):
        if len(n.args) == 1:
            seq = ex.as_list(ex.refresh(ex.eval(n.args[0])))
            et = seq.ty.args[0]
            m = fresh(et, 'max' if is_max else 'min')
            ln = ex.list_len(seq)
            ex.safety('ValueError', ln > 0, 'minmax_empty')
            j = z3.Int(fresh_name('j'))
            w = z3.Int(fresh_name('w'))
            num = lambda t: ex.num(from_smt(et, t)).term if et.kind != 'obj' or et.cls in ('optint', 'optreal') else dt_key(t)
            le = (lambda a, b: a >= b) if is_max else (lambda a, b: a <= b)
            ex.assume(z3.ForAll([j], z3.Implies(z3.And(0 <= j, j < ln), le(num(to_smt(m)), num(z3.Select(ex.list_elems(seq), j))))))
            ex.assume(z3.And(0 <= w, w < ln, to_smt(m) == z3.Select(ex.list_elems(seq), w)))
            return m
        vals = [ex.num(ex.eval(a)) for a in n.args]
        if any(v.ty.kind == 'real' for v in vals):
            vals = [coerce(v, REAL) for v in vals]
        acc = vals[0]
        for v in vals[1:]:
            acc = V(acc.ty, z3.If((v.term > acc.term) if is_max else (v.term < acc.term), v.term, acc.term))
        return acc
    return f


dt_key = z3.Function('datetime_ts', Ref, z3.RealSort())   # total order on datetimes via their timestamp (P1)


def b_isinstance(ex, n, awaited, recv=None):
    x = ex.eval(n.args[0])
    c = ex.eval(n.args[1])
    return mk_bool(isinstance_term(ex, x, c))


def isinstance_term(ex, x: V, c: V):
    if c.ty.kind == 'tuple':
        return z3.Or(*[isinstance_term(ex, x, ci) for ci in c.term])
    if c.ty.kind == 'py' and c.py[0] == 'fn' and c.py[1] in ('str', 'int', 'float', 'bool', 'list', 'dict', 'tuple', 'set', 'type'):
        c = V(PY, py=('cls', c.py[1]))
    if c.ty.kind == 'py' and c.py[0] == 'cls':
        cname = c.py[1]
        if x.ty.kind == 'int':
            return z3.BoolVal(cname in ('int', 'object'))
        if x.ty.kind == 'bool':
            return z3.BoolVal(cname in ('bool', 'int', 'object'))
        if x.ty.kind == 'real':
            return z3.BoolVal(cname in ('float', 'object'))
        if x.ty.kind == 'list':
            return z3.BoolVal(cname in ('list', 'object'))
        if x.ty.kind == 'dict':
            return z3.BoolVal(cname in ('dict', 'object'))
        if x.ty.kind == 'tuple':
            return z3.BoolVal(cname in ('tuple', 'object'))
        if x.ty.kind == 'py':
            d = x.py
            if d[0] in ('lambda', 'closure', 'fn'):
                return z3.BoolVal(cname in ('function', 'object'))
            if d[0] == 'cls':
                return z3.BoolVal(cname in ('type', 'object'))
            raise Unsupported('isinstance of %r' % (d,))
        if cname not in smt.CLASSES:
            raise Unsupported('isinstance against unknown class %s' % cname)
        return smt.issub(smt.tag(x.term), smt.CLASSES[cname])
    if c.ty.kind == 'obj':
        f = z3.Function('isinstance_dyn', Ref, Ref, z3.BoolSort())
        return f(coerce(x, ANY).term, c.term)
    raise Unsupported('isinstance(_, %r)' % (c,))


def b_issubclass(ex, n, awaited, recv=None):
    x = ex.eval(n.args[0])
    c = ex.eval(n.args[1])
    if x.ty.kind == 'py' and x.py[0] == 'cls' and c.ty.kind == 'py' and c.py[0] == 'cls':
        return mk_bool(c.py[1] in smt.ancestors(x.py[1]))
    if x.ty.kind == 'obj' and c.ty.kind == 'py' and c.py[0] == 'cls':
        # issubclass(x, C) raises TypeError unless x is a class (A10)
        ex.safety('TypeError', smt.issub(smt.tag(x.term), smt.CLASSES['type']), 'issubclass_arg_is_class')
        f = z3.Function('issubclass_dyn_' + c.py[1], Ref, z3.BoolSort())
        return mk_bool(f(x.term))
    raise Unsupported('issubclass(%r, %r)' % (x, c))


def b_hasattr(ex, n, awaited, recv=None):
    x = ex.eval(n.args[0])
    a = n.args[1]
    if not isinstance(a, ast.Constant):
        raise Unsupported('hasattr with computed name')
    name = a.value
    if name == '__class__':
        return mk_bool(True)
    if x.ty.kind == 'obj':
        if x.ty.cls not in ('any',) and name in ex.spec.fields and (x.ty.cls, name) in getattr(ex.spec, 'class_fields', set()):
            return mk_bool(True)
        f = z3.Function('hasattr_' + name, Ref, z3.BoolSort())
        return mk_bool(f(x.term))
    if x.ty.kind == 'py':
        f = z3.Bool(fresh_name('hasattr_' + name))
        return mk_bool(f)
    raise Unsupported('hasattr on %r' % (x.ty,))


def b_id(ex, n, awaited, recv=None):
    x = ex.eval(n.args[0])
    return mk_int(smt.obj_id(coerce(x, ANY).term))


def b_str(ex, n, awaited, recv=None):
    x = ex.eval(n.args[0])
    if x.ty.kind == 'obj' and x.ty.cls == 'str':
        return x
    f = z3.Function('str_of', Ref, Ref)
    t = f(coerce(x, ANY).term)
    ex.assume(Ref.is_str(t))
    if x.ty.kind == 'obj':
        ex.assume(z3.Implies(Ref.is_str(x.term), t == x.term))     # str(s) is s for a str
    if x.ty.kind == 'int' or (x.ty.kind == 'obj' and x.ty.cls in ('optint',)):
        inv = z3.Function('str_of^-1', Ref, Ref)
        ex.assume(inv(t) == coerce(x, ANY).term)
    return V(STR, t)


def b_range(ex, n, awaited, recv=None):
    if len(n.args) != 1:
        raise Unsupported('range with %d args' % len(n.args))
    hi = coerce(ex.eval(n.args[0]), INT).term
    i = z3.Int(fresh_name('i'))
    return ex.mk_list(INT, z3.Lambda([i], i), z3.If(hi > 0, hi, z3.IntVal(0)))


def b_list(ex, n, awaited, recv=None):
    if not n.args:
        et = getattr(ex, '_want_elem', None) or ANY
        return ex.mk_list(et, z3.Const(fresh_name('empty'), z3.ArraySort(z3.IntSort(), et.sort())), z3.IntVal(0))
    v = ex.refresh(ex.eval(n.args[0]))
    if v.ty.kind == 'py' and v.py[0] == 'weakset':
        return weakset_list(ex, v)
    l = ex.as_list(v)
    return V(l.ty, l.term)


def weakset_list(ex, v):
    et = v.py[1]
    out = fresh(Ty('list', (et,)), 'instances')
    ex.assume_type(out)
    j = z3.Int(fresh_name('j'))
    x = z3.Select(ex.list_elems(out), j)
    cid = smt.CLASSES[et.cls]
    ex.assume(z3.ForAll([j], z3.Implies(z3.And(0 <= j, j < ex.list_len(out)),
                                          z3.And(x != NONE, smt.issub(smt.tag(x), cid), ex.is_alloc(x))),
                        patterns=[z3.Select(ex.list_elems(out), j)]))
    return out


def b_set(ex, n, awaited, recv=None):
    if n.args:
        raise Unsupported('set(iterable)')
    if getattr(ex, '_want_pyset', False):
        # a set that is shared by reference (passed down a recursion): an object with identity, contents in the heap
        s = ex.fresh_obj('PySet', 'set')
        ex.write_field(s.term, 'set_members', V(Ty('set', (STR,)), z3.K(Ref, z3.BoolVal(False))))
        return s
    et = getattr(ex, '_want_set_elem', None) or STR
    return V(Ty('set', (et,)), z3.K(et.sort(), z3.BoolVal(False)))


def pyset_add(ex, n, awaited, recv):
    x = coerce(ex.eval(n.args[0]), STR)
    m = ex.read_field(recv.term, 'set_members')
    ex.write_field(recv.term, 'set_members', V(m.ty, z3.Store(m.term, x.term, True)))
    return mk_none()


def b_sum(ex, n, awaited, recv=None):
    a = n.args[0]
    if isinstance(a, ast.GeneratorExp) and isinstance(a.elt, ast.Constant) and a.elt.value == 1:
        lst = ex.eval(a)
        return mk_int(ex.list_len(lst))
    raise Unsupported('sum() other than counting')


def b_all(ex, n, awaited, recv=None):
    return _quant(ex, n, True)


def b_any(ex, n, awaited, recv=None):
    return _quant(ex, n, False)


def _quant(ex, n, is_all):
    a = n.args[0]
    if not isinstance(a, (ast.GeneratorExp, ast.ListComp)) or len(a.generators) != 1:
        raise Unsupported('all/any over non-comprehension')
    src, j, elts, cond = ex.comp_parts([a.elt], a.generators[0])
    body = ex.truth(elts[0])
    rng = z3.And(0 <= j, j < ex.list_len(src))
    if cond is not None:
        rng = z3.And(rng, cond)
    if is_all:
        return mk_bool(z3.ForAll([j], z3.Implies(rng, body)))
    return mk_bool(z3.Exists([j], z3.And(rng, body)))


def b_time(ex, n, awaited, recv=None):
    return fresh(REAL, 'time')


def b_none(ex, n, awaited, recv=None):
    for a in n.args:
        ex.eval(a)
    return mk_none()


def b_type(ex, n, awaited, recv=None):
    x = ex.eval(n.args[0])
    f = z3.Function('type_of', Ref, Ref)
    return V(ANY, f(coerce(x, ANY).term))


def b_getattr(ex, n, awaited, recv=None):
    raise Unsupported('getattr()')


def b_callable(ex, n, awaited, recv=None):
    x = ex.eval(n.args[0])
    if x.ty.kind == 'py':
        return mk_bool(True)
    f = z3.Function('callable', Ref, z3.BoolSort())
    return mk_bool(f(coerce(x, ANY).term))


def predicate(name):
    def f(ex, n, awaited, recv=None):
        x = ex.eval(n.args[0])
        if x.ty.kind == 'py':
            d = x.py
            if name == 'inspect.isfunction':
                return mk_bool(d[0] in ('lambda', 'closure', 'fn'))
            if name == 'inspect.ismethod':
                return mk_bool(d[0] == 'method')
            return mk_bool(z3.Bool(fresh_name(name)))
        p = z3.Function(name, Ref, z3.BoolSort())
        return mk_bool(p(coerce(x, ANY).term))
    return f


def b_datetime_now(ex, n, awaited, recv=None):
    v = ex.fresh_obj('datetime', 'now')
    return v


# ---------------------------------------------------------------------------------------------
# context managers

def cm_null_enter(ex, v):
    return mk_none()


def cm_null_exit(ex, v, sig):
    return sig


def b_asyncio_timeout(ex, n, awaited, recv=None):
    t = ex.eval(n.args[0])
    return V(PY, py=('cm', 'asyncio.timeout', t))


def cm_timeout_exit(ex, v, sig):
    """A4: a CancelledError leaving the block becomes TimeoutError iff the deadline fired (either may be the case)."""
    if isinstance(sig, RaiseSig):
        e = sig.exc
        if ex.branch(smt.issub(smt.tag(e.term), smt.CLASSES['CancelledError']), 'timeout_cm_cancelled'):
            tval = v.py[2]
            can_fire = z3.BoolVal(True)
            if tval.ty.kind == 'obj':
                can_fire = tval.term != NONE
            if ex.choice([None, can_fire], 'deadline_fired?') == 1:
                ex.st.trace.append('deadline->TimeoutError')
                ex.st.flags['cancelled'] = False   # it was the deadline's internal cancellation, not the caller's
                new = ex.fresh_exc('TimeoutError', base='deadline', exact=True)
                if 'last_exc' in ex.C.ghost_modifies:
                    ex.ghost_set('last_exc', new)
                return RaiseSig(new, 'asyncio.timeout')
    return sig


# ---------------------------------------------------------------------------------------------
# asyncio primitives

def b_sleep(ex, n, awaited, recv=None):
    t = ex.eval(n.args[0]) if n.args else mk_int(0)
    if not awaited:
        return V(PY, py=('coro', 'asyncio.sleep', {'t': t}))
    ex.suspend('asyncio.sleep')
    return mk_none()


def sem_acquire(ex, n, awaited, recv):
    if not awaited:
        return V(PY, py=('coro', 'Semaphore.acquire', {'self': recv}))
    return sem_acquire_await(ex, recv)


def sem_acquire_await(ex, recv, check_loop=None):
    """A6: returns holding one permit; a cancelled acquire holds nothing. An asyncio.Semaphore that has blocked in one event loop
    raises RuntimeError when it has to block in another one: `check_loop(ok)` receives that pre-condition."""
    from .symexec import MOD
    cur = ex.read_field(MOD, 'g$current_loop')
    bound = ex.read_field(recv.term, 'sem_loop')
    if check_loop is not None:
        check_loop(z3.Or(bound.term == NONE, bound.term == cur.term))
    ex.write_field(recv.term, 'sem_loop', V(bound.ty, z3.If(bound.term == NONE, cur.term, bound.term)))
    ex.suspend('Semaphore.acquire')
    val = ex.read_field(recv.term, 'sem_value')
    ex.assume(val.term > 0)
    ex.write_field(recv.term, 'sem_value', mk_int(val.term - 1))
    return mk_bool(True)


def sem_release(ex, n, awaited, recv):
    val = ex.read_field(recv.term, 'sem_value')
    ex.write_field(recv.term, 'sem_value', mk_int(val.term + 1))
    return mk_none()


def sem_new(ex, n, awaited, recv=None):
    v = ex.fresh_obj('Semaphore')
    lim = coerce(ex.eval(n.args[0]), INT) if n.args else mk_int(1)
    ex.write_field(v.term, 'sem_value', lim)
    ex.write_field(v.term, 'sem_loop', mk_none())
    return v


def user_call(name, pre=None, post=None, on_raise=None, result_ty='any', raises=('Exception',), is_async=True, on_timeout=None, sync_havoc=False):
    """Model of a call into user code (handler, wrapped function, predicate): an arbitrary client of the public API.
    It is a suspension point (when async), returns anything of result_ty or raises any of `raises`; ghost effects are
    applied by pre/post/on_raise."""
    rty = parse_ty(result_ty)

    def run(ex):
        if pre:
            pre(ex)
        if not is_async and sync_havoc:
            ex.suspend('user(sync):' + name, cancel=False)   # user code is an arbitrary client of the public API
        if is_async:
            try:
                ex.suspend('user:' + name)
            except RaiseSig as sig:
                if on_raise:
                    on_raise(ex, sig.exc)
                raise
        i = ex.choice([None] * (1 + len(raises)), 'user:' + name)
        if i == 0:
            res = fresh(rty, 'ret_' + name)
            ex.assume_type(res)
            if post:
                post(ex, res)
            return res
        exc = ex.fresh_exc(raises[i - 1], base='userexc')
        if on_raise:
            on_raise(ex, exc)
        raise RaiseSig(exc, 'user:' + name)

    def model(ex, n, awaited, recv=None):
        if is_async and not awaited:
            return V(PY, py=('coro', 'user:' + name, {'run': run, 'on_timeout': on_timeout}))
        return run(ex)

    model.run = run
    return model


def str_pred(name):
    def f(ex, n, awaited, recv):
        p = z3.Function('str_' + name, Ref, z3.BoolSort())
        return mk_bool(p(recv.term))
    return f


def install(spec: Spec):
    for nm in ('isidentifier', 'isdigit', 'startswith', 'endswith'):
        spec.methods[('str', nm)] = str_pred(nm)
    b = spec.builtins
    b.update({
        'len': b_len, 'max': _minmax(True), 'min': _minmax(False), 'isinstance': b_isinstance, 'issubclass': b_issubclass,
        'hasattr': b_hasattr, 'set': b_set, 'id': b_id, 'str': b_str, 'range': b_range, 'list': b_list, 'sum': b_sum, 'all': b_all, 'any': b_any,
        'time.time': b_time, 'type': b_type, 'getattr': b_getattr, 'callable': b_callable,
        'inspect.isfunction': predicate('inspect.isfunction'), 'inspect.ismethod': predicate('inspect.ismethod'),
        'inspect.iscoroutinefunction': predicate('inspect.iscoroutinefunction'),
        'datetime.now': b_datetime_now,
        'asyncio.timeout': b_asyncio_timeout, 'asyncio.sleep': b_sleep,
        'asyncio.Semaphore': sem_new,
        'cm:null': {'enter': cm_null_enter, 'exit': cm_null_exit},
        'cm:asyncio.timeout': {'enter': cm_null_enter, 'exit': cm_timeout_exit},
    })
    spec.methods[('Semaphore', 'acquire')] = sem_acquire
    spec.methods[('Semaphore', 'release')] = sem_release
    spec.fields.setdefault('set_members', parse_ty('set[str]'))
    smt.defclass('PySet', 'object')
    spec.methods[('PySet', 'add')] = pyset_add
    spec.fields.setdefault('sem_value', INT)
    spec.fields.setdefault('sem_loop', parse_ty('opt[Loop]'))
    spec.fields.setdefault('g$current_loop', parse_ty('Loop'))
    g = spec.globals.setdefault('*', {})
    for name in ('set', 'len', 'max', 'min', 'isinstance', 'issubclass', 'hasattr', 'id', 'str', 'range', 'list', 'sum', 'all', 'any', 'type',
                 'getattr', 'callable', 'cast', 'old'):
        g[name] = ('fn', name)
    for mod in ('asyncio', 'time', 'inspect', 'logger', 'warnings', 'contextvars', 'datetime', 'anyio', 'traceback', 'weakref'):
        g[mod] = ('mod', mod)
    for cls in smt.CLASSES:
        g.setdefault(cls, ('cls', cls))
    g['IOError'] = ('cls', 'OSError')
    g['asyncio.InvalidStateError'] = ('cls', 'InvalidStateError')
    g['asyncio.CancelledError'] = ('cls', 'CancelledError')
    g['asyncio.TimeoutError'] = ('cls', 'TimeoutError')
    g['asyncio.QueueFull'] = ('cls', 'QueueFull')
    g['asyncio.QueueEmpty'] = ('cls', 'QueueEmpty')
    g['asyncio.Future'] = ('cls', 'Future')
    g['asyncio.Event'] = ('cls', 'AsyncEvent')
    from .symexec import MOD
    g['MODULE'] = ('const', V(ANY, MOD))
    g['UTC'] = ('const', V(PY, py=('UTC',)))
    install_specfuns(spec)
    spec.builtin_effects = {'acquire': ['sem_value', 'sem_loop'], 'release': ['sem_value']}


# ---------------------------------------------------------------------------------------------
# spec-only functions available in contract clauses

def sf_implies(ex, a, b):
    return mk_bool(z3.Implies(ex.truth(a), ex.truth(b)))


def sf_iff(ex, a, b):
    return mk_bool(ex.truth(a) == ex.truth(b))


def sf_fmt(template):
    def f(ex, *parts):
        ts = [coerce(p, ANY).term if p.ty.kind != 'obj' else p.term for p in parts]
        fn = z3.Function('fstr<' + template + '>', *([Ref] * len(ts) + [Ref]))
        return V(STR, fn(*ts))
    return f


def sf_ctx(ex, name):
    """ctx('key'): value of a context variable of the current task."""
    lit = [k for k, v in smt._LITS.items() if v.eq(name.term)][0]
    for gname, (key, ty, dflt) in ex.spec.ctxvars.items():
        if key == lit:
            ctx = ex.old_stack[-1]['ctx'] if ex.old_stack and 'ctx' in ex.old_stack[-1] else ex.st.ctx
            if key not in ctx:
                v = fresh(ty, 'ctx_' + key)
                ex.st.ctx.setdefault(key, v)
                if ex.entry is not None:
                    ex.entry['ctx'].setdefault(key, v)
                for s in ex.old_stack:
                    s.setdefault('ctx', {}).setdefault(key, v)
                ctx.setdefault(key, v)
            return ctx[key]
    raise Unsupported('unknown context variable %r' % lit)


def sf_isinstance(ex, x, c):
    return mk_bool(isinstance_term(ex, x, c))


def sf_exc_is(ex, e, c):
    return mk_bool(isinstance_term(ex, e, c))


def sf_fresh_object(ex, x):
    return mk_bool(z3.And(x.term != NONE, z3.Not(ex.is_alloc(x.term, ex.entry['now'])), ex.is_alloc(x.term)))


def sf_wf_dict(ex, d):
    return mk_bool(ex.dict_wf(d))


def install_specfuns(spec: Spec):
    spec.specfuns['wf_dict'] = sf_wf_dict
    spec.specfuns['fresh_object'] = sf_fresh_object
    spec.specfuns.update({'implies': sf_implies, 'iff': sf_iff, 'fmt2': sf_fmt('{}.{}'), 'ctx': sf_ctx, 'exc_is': sf_exc_is})
