"""Statement layer of the symbolic executor."""
from __future__ import annotations

import ast

import z3

from . import smt
from .calls import CallMixin
from .core import BreakSig, ContinueSig, DeadPath, RaiseSig, ReturnSig, Signal
from .smt import NONE, Ref
from .values import (ANY, BOOL, INT, PY, REAL, STR, Ty, Unsupported, V, coerce, fresh, fresh_name, from_smt, mk_bool,
                     mk_int, mk_none, mk_real, mk_str, obj, parse_ty, to_smt)

MUTATORS = {'append', 'extend', 'remove', 'pop', 'clear', 'update', 'add', 'discard', 'sort', 'insert'}


def assigned_names(nodes) -> set[str]:
    out: set[str] = set()

    def tgt(t):
        if isinstance(t, ast.Name):
            out.add(t.id)
        elif isinstance(t, (ast.Tuple, ast.List)):
            for e in t.elts:
                tgt(e)
        elif isinstance(t, ast.Starred):
            tgt(t.value)
        elif isinstance(t, ast.Subscript):
            # x[k] = v / del x[k] on a local container value changes x
            b = t.value
            while isinstance(b, ast.Subscript):
                b = b.value
            if isinstance(b, ast.Name):
                out.add(b.id)

    for root in nodes:
        for n in ast.walk(root):
            if isinstance(n, ast.Assign):
                for t in n.targets:
                    tgt(t)
            elif isinstance(n, (ast.AugAssign, ast.AnnAssign)):
                tgt(n.target)
            elif isinstance(n, (ast.For, ast.AsyncFor)):
                tgt(n.target)
            elif isinstance(n, (ast.With, ast.AsyncWith)):
                for it in n.items:
                    if it.optional_vars is not None:
                        tgt(it.optional_vars)
            elif isinstance(n, ast.ExceptHandler) and n.name:
                out.add(n.name)
            elif isinstance(n, ast.NamedExpr):
                tgt(n.target)
            elif isinstance(n, ast.Delete):
                for t in n.targets:
                    tgt(t)
            elif isinstance(n, ast.Call) and isinstance(n.func, ast.Attribute) and n.func.attr in MUTATORS and isinstance(n.func.value, ast.Name):
                out.add(n.func.value.id)
    return out


class StmtMixin(CallMixin):

    def exec_block(self, stmts):
        for s in stmts:
            self.exec_stmt(s)

    def exec_stmt(self, s: ast.stmt):
        self.cur_line = getattr(s, 'lineno', self.cur_line)
        m = getattr(self, 's_' + type(s).__name__, None)
        if m is None:
            raise Unsupported('statement %s at line %s' % (type(s).__name__, self.cur_line))
        m(s)

    # ------------------------------------------------------------------ simple statements
    def s_Pass(self, s):
        pass

    def s_Global(self, s):
        pass

    def s_Nonlocal(self, s):
        pass

    def s_Import(self, s):
        for a in s.names:
            nm = (a.asname or a.name).split('.')[0]
            self.st.env.setdefault(nm, V(PY, py=('mod', a.name)))

    def s_ImportFrom(self, s):
        g = self.spec.globals.get('*', {})
        for a in s.names:
            nm = a.asname or a.name
            if nm in self.spec.globals.get(self.C.file, {}) or nm in g:
                continue
            dotted = a.name
            self.st.env[nm] = V(PY, py=('fn', dotted))

    def s_Expr(self, s):
        if isinstance(s.value, ast.Constant):
            return
        self.eval(s.value)

    def s_Return(self, s):
        v = self.eval(s.value) if s.value is not None else mk_none()
        raise ReturnSig(v)

    def s_Break(self, s):
        raise BreakSig()

    def s_Continue(self, s):
        raise ContinueSig()

    def s_Assert(self, s):
        text = ast.unparse(s.test)
        c = self.truth(self.eval(s.test))
        if text in self.C.assume_asserts:
            self.notes.append('assert assumed (type narrowing): ' + text)
            self.assume(c)
            return
        self.safety('AssertionError', c, 'assert_L%d' % self.cur_line)

    def s_Raise(self, s):
        if s.exc is None:
            if not self.st.handling:
                raise Unsupported('bare raise outside except')
            raise RaiseSig(self.st.handling[-1][0], self.st.handling[-1][1])
        v = self.eval(s.exc)
        if v.ty.kind == 'py' and v.py[0] == 'cls':
            v = self.fresh_exc(v.py[1], base=v.py[1], exact=True)
        if v.ty.kind != 'obj':
            raise Unsupported('raise of %r' % (v,))
        raise RaiseSig(v, 'raise@%d' % self.cur_line)

    def s_Delete(self, s):
        for t in s.targets:
            if isinstance(t, ast.Subscript):
                base = self.refresh(self.eval(t.value))
                if base.ty.kind != 'dict':
                    raise Unsupported('del on %r' % (base.ty,))
                k = self.eval(t.slice)
                self.safety('KeyError', self.dict_has(base, k), 'del_key')
                self.mutate(base, self.dict_delete(base, k))
            else:
                raise Unsupported('del target')

    def dict_delete(self, d: V, k: V) -> V:
        """del d[k]: later keys shift down by one; the result is a fresh dict characterised by quantified axioms."""
        kt = to_smt(coerce(k, d.ty.args[0]))
        keys, n, has, val, idx = self.dict_parts(d)
        p = z3.Select(idx, kt)
        out = fresh(d.ty, 'ddel')
        keys2, n2, has2, val2, idx2 = self.dict_parts(out)
        i = z3.Int(fresh_name('i'))
        kk = z3.Const(fresh_name('k'), d.ty.args[0].sort())
        self.assume(n2 == n - 1)
        self.assume(z3.ForAll([kk], z3.Implies(kk != kt, z3.Select(val2, kk) == z3.Select(val, kk)), patterns=[z3.Select(val2, kk)]))
        self.assume(z3.ForAll([i], z3.Select(keys2, i) == z3.If(i < p, z3.Select(keys, i), z3.Select(keys, i + 1)), patterns=[z3.Select(keys2, i)]))
        self.assume(z3.ForAll([kk], z3.Select(idx2, kk) == z3.If(kk == kt, z3.IntVal(-1), z3.If(z3.Select(idx, kk) > p, z3.Select(idx, kk) - 1, z3.Select(idx, kk))), patterns=[z3.Select(idx2, kk)]))
        out.loc = d.loc
        return out

    # ------------------------------------------------------------------ assignment
    def s_Assign(self, s):
        want = None
        if len(s.targets) == 1 and isinstance(s.targets[0], ast.Name):
            want = self.C.locals.get(s.targets[0].id)
        v = self.eval_wanted(s.value, want)
        for t in s.targets:
            self.assign(t, v)

    def s_AnnAssign(self, s):
        if s.value is None:
            return
        want = self.C.locals.get(s.target.id) if isinstance(s.target, ast.Name) else None
        v = self.eval_wanted(s.value, want)
        self.assign(s.target, v)

    def eval_wanted(self, node, want: Ty | None) -> V:
        if want is not None and want.kind == 'list':
            self._want_elem = want.args[0]
        if want is not None and want.kind == 'dict':
            self._want_dict = want
        if want is not None and want.kind == 'set':
            self._want_set_elem = want.args[0]
        if want is not None and want.kind == 'obj' and want.cls == 'PySet':
            self._want_pyset = True
        try:
            v = self.eval(node)
        finally:
            self._want_elem = None
            self._want_dict = None
            self._want_set_elem = None
            self._want_pyset = False
        if want is not None and v.ty.kind != 'py':
            v = coerce(v, want)
        return v

    def assign(self, t: ast.AST, v: V):
        if isinstance(t, ast.Name):
            if t.id in self.spec.globals.get(self.C.file, {}) and t.id not in self.st.env:
                d = self.spec.globals[self.C.file][t.id]
                if isinstance(d, tuple) and d[0] == 'state':
                    from .symexec import MOD
                    self.write_field(MOD, d[1], v)
                    return
            if v.ty.kind in ('list', 'dict', 'set') and (v.loc is None or v.loc[0] == 'local'):
                v = V(v.ty, v.term, ('local', t.id), v.py)
            self.st.env[t.id] = v
        elif isinstance(t, (ast.Tuple, ast.List)):
            if v.ty.kind != 'tuple' or len(v.term) != len(t.elts):
                raise Unsupported('tuple assignment from %r' % (v.ty,))
            for e, x in zip(t.elts, v.term):
                self.assign(e, x)
        elif isinstance(t, ast.Attribute):
            base = self.eval(t.value)
            if base.ty.kind != 'obj':
                if t.attr in ('__name__', '_log_destroy_pending', 'close', '_eventbus_close_hooked', '_eventbus_instances'):
                    self.notes.append('attribute store dropped: .' + t.attr)
                    return
                raise Unsupported('attribute store on %r' % (base.ty,))
            if t.attr in getattr(self.spec, 'dropped_attr_stores', ()) and t.attr not in self.spec.fields:
                self.notes.append('attribute store dropped: .' + t.attr)
                return
            if base.ty.opt and base.ty.cls != 'any':
                self.safety('AttributeError', base.term != NONE, 'store_none_' + t.attr)
            self.write_field(base.term, t.attr, v)
        elif isinstance(t, ast.Subscript):
            base = self.refresh(self.eval(t.value))
            k = self.eval(t.slice)
            if base.ty.kind == 'dict':
                self.mutate(base, self.dict_set(base, k, v))
            elif base.ty.kind == 'list':
                i = coerce(k, INT).term
                n = self.list_len(base)
                self.safety('IndexError', z3.And(0 <= i, i < n), 'list_store')
                self.mutate(base, V(base.ty, base.ty.sort().mk(z3.Store(self.list_elems(base), i, to_smt(coerce(v, base.ty.args[0]))), n), base.loc))
            else:
                raise Unsupported('subscript store on %r' % (base.ty,))
        else:
            raise Unsupported('assignment target %s' % type(t).__name__)

    def s_AugAssign(self, s):
        cur = self.eval(s.target)
        rhs = ast.BinOp(left=s.target, op=s.op, right=s.value)
        ast.copy_location(rhs, s)
        ast.fix_missing_locations(rhs)
        v = self.eval(rhs)
        self.assign(s.target, v)

    # ------------------------------------------------------------------ control flow
    def only_logging(self, stmts) -> bool:
        from .calls import DROPPED_CALLS
        for st in stmts:
            if isinstance(st, ast.Pass):
                continue
            if isinstance(st, ast.Expr) and isinstance(st.value, ast.Call) and ast.unparse(st.value.func) in DROPPED_CALLS:
                continue
            if isinstance(st, ast.Expr) and isinstance(st.value, ast.Constant):
                continue
            return False
        return True

    def s_If(self, s):
        if self.only_logging(s.body) and self.only_logging(s.orelse) and not any(isinstance(x, (ast.Await, ast.Call)) and not (isinstance(x, ast.Call) and isinstance(x.func, ast.Attribute) and x.func.attr in ('qsize', 'is_set', 'done')) for x in ast.walk(s.test)):
            # X1: a condition that only guards log statements is dropped together with them
            self.notes.append('if-statement guarding only log calls dropped (line %d)' % s.lineno)
            return
        c = self.truth(self.eval(s.test))
        if self.branch(c, 'if'):
            self.exec_block(s.body)
        else:
            self.exec_block(s.orelse)

    def loop_ordinal(self, node) -> int:
        return self.loop_index[id(node)]

    def loop_contract(self, node, ordinal: int) -> dict:
        """Loop contracts are keyed by ordinal (source order) or - robust against loops being added/removed elsewhere in the function -
        by what the loop iterates: 'for <iter text>' / 'while <test text>', with '#k' appended when the text occurs more than once."""
        loops = self.C.loops
        if any(isinstance(k, str) for k in loops):
            names = getattr(self, '_loop_names', None)
            if names is None or names[0] is not self.fn_node:
                texts = {}
                for n in ast.walk(self.fn_node):
                    if id(n) in self.loop_index:
                        texts[id(n)] = ('while ' + ast.unparse(n.test)) if isinstance(n, ast.While) else ('for ' + ast.unparse(n.iter))
                by_text = {}
                for i, t in sorted(texts.items(), key=lambda kv: self.loop_index[kv[0]]):
                    by_text.setdefault(t, []).append(i)
                nm = {}
                for t, ids in by_text.items():
                    for k, i in enumerate(ids):
                        nm[i] = t if len(ids) == 1 else '%s#%d' % (t, k)
                names = (self.fn_node, nm)
                self._loop_names = names
            return loops.get(names[1].get(id(node)), {})
        return loops.get(ordinal, {})

    def writes_of(self, nodes) -> tuple[set[str], set[str], bool]:
        fields: set[str] = set()
        ghosts: set[str] = set()
        suspends = False
        for root in nodes:
            for n in ast.walk(root):
                if isinstance(n, (ast.Await, ast.AsyncWith, ast.AsyncFor)):
                    suspends = True
                if isinstance(n, (ast.Assign, ast.AugAssign, ast.AnnAssign)):
                    for t in (n.targets if isinstance(n, ast.Assign) else [n.target]):
                        for sub in ast.walk(t):
                            if isinstance(sub, ast.Attribute) and isinstance(sub.ctx, ast.Store):
                                fields.add(sub.attr)
                            if isinstance(sub, ast.Subscript) and isinstance(sub.ctx, ast.Store) and isinstance(sub.value, ast.Attribute):
                                fields.add(sub.value.attr)
                            if isinstance(sub, ast.Name) and isinstance(sub.ctx, ast.Store):
                                d = self.spec.globals.get(self.C.file, {}).get(sub.id)
                                if isinstance(d, tuple) and d[0] == 'state':
                                    fields.add(d[1])
                if isinstance(n, ast.Delete):
                    for t in n.targets:
                        if isinstance(t, ast.Subscript) and isinstance(t.value, ast.Attribute):
                            fields.add(t.value.attr)
                if isinstance(n, ast.Call):
                    f = n.func
                    name = f.attr if isinstance(f, ast.Attribute) else f.id if isinstance(f, ast.Name) else None
                    if isinstance(f, ast.Attribute) and f.attr in MUTATORS:
                        v = f.value
                        while isinstance(v, ast.Subscript):
                            v = v.value
                        if isinstance(v, ast.Attribute):
                            fields.add(v.attr)
                    local_container = (isinstance(f, ast.Attribute) and isinstance(f.value, ast.Name) and f.value.id in self.st.env
                                       and self.st.env[f.value.id].ty.kind in ('list', 'dict', 'set'))
                    if name is not None and not local_container:      # d.update(...) on a local dict is not EventResult.update
                        eff = self.spec_effects().get(name)
                        if eff:
                            fields.update(eff[0])
                            ghosts.update(eff[1])
                    cs = self.C.callsites.get(ast.unparse(n)) or self.C.callsites.get(ast.unparse(f))
                    if cs:
                        fields.update(cs.get('writes', ()))
                        ghosts.update(cs.get('ghost_writes', ()))
                        if cs.get('suspends'):
                            suspends = True
        return fields, ghosts, suspends

    def spec_effects(self) -> dict:
        eff = getattr(self.spec, '_effects', None)
        if eff is None:
            eff = {}
            for key, C in self.spec.functions.items():
                nm = key.split('.')[-1]
                e = eff.setdefault(nm, (set(), set()))
                e[0].update(f for f, _ in C.modifies)
                e[1].update(C.ghost_modifies)
            for nm, fs in getattr(self.spec, 'builtin_effects', {}).items():
                e = eff.setdefault(nm, (set(), set()))
                e[0].update(fs)
            self.spec._effects = eff
        return eff

    def havoc_for_loop(self, body_nodes, L: dict):
        names = assigned_names(body_nodes)
        for nm in sorted(names):
            if nm in self.st.env:
                old = self.st.env[nm]
                if old.ty.kind == 'py':
                    continue
                nv = fresh(old.ty, 'loop_' + nm)
                nv.loc = old.loc if (old.loc and old.loc[0] == 'local') else None
                if old.loc and old.loc[0] in ('field', 'item'):
                    continue  # alias of heap state: havocked through the heap
                self.assume_type(nv)
                self.st.env[nm] = nv
        fields, ghosts, suspends = self.writes_of(body_nodes)
        star = None
        pre_loop = self.st.snapshot()
        fields |= set(L.get('havoc', ()))
        ghosts |= set(L.get('havoc_ghost', ()))
        if suspends:
            I = self.interference()
            if I is not None:
                if '*' in I.havoc:
                    fields |= {f for f in self.st.heap if not f.startswith('$')} - set(I.keep)
                    star = I.keep
                else:
                    fields |= set(I.havoc)
                ghosts |= set(I.havoc_ghost)
        for f in sorted(fields):
            if f in self.spec.fields:
                self.havoc_field(f)
        if star is not None:
            self.new_epoch(star)
        if fields:
            self.grow_alloc()
        for g in sorted(ghosts):
            self.havoc_ghost(g)
        self.rebase_frame([f for f in fields if f in self.spec.fields], ghosts)
        if suspends:
            # rely clauses are reflexive and transitive ("once X, X stays"): they relate the state at loop entry to the state at
            # the head of any later iteration, however many suspension points lie in between
            I = self.interference()
            if I is not None:
                env = dict(self.st.env)
                for cl in I.rely:
                    self.assume(self.spec_bool(cl.expr, env, entry=pre_loop))

    def check_inv(self, L: dict, kind: str, ordinal: int, assume_only=False):
        env = dict(self.st.env)
        for cl in [Clause_of(c) for c in L.get('inv', ())]:
            f = self.spec_bool(cl.expr, env)
            if assume_only:
                self.assume(f)
            else:
                self.oblige('loop#%d' % ordinal, '%s:%s' % (kind, cl.label), f, cl.tags)

    def s_For(self, s):
        if s.orelse:
            raise Unsupported('for-else')
        ordinal = self.loop_ordinal(s)
        L = self.loop_contract(s, ordinal)
        src = self.as_list(self.refresh(self.eval(s.iter)))
        src = V(src.ty, src.term)   # snapshot
        n = self.list_len(src)
        self.assume(n >= 0)
        iname, sname = 'loop_i', 'loop_seq'
        saved_i, saved_s = self.st.env.get(iname), self.st.env.get(sname)
        if not hasattr(self, 'loop_old_stack'):
            self.loop_old_stack = []
        self.loop_old_stack.append(self.st.snapshot())
        depth_los = len(self.loop_old_stack)
        self.st.env[iname] = mk_int(0)
        self.st.env[sname] = src
        self.st.env['loop_i%d' % ordinal] = mk_int(0)       # nested loops: the outer loop's index/sequence stay visible by ordinal
        self.st.env['loop_seq%d' % ordinal] = src
        for lem in L.get('assume_entry', ()):
            # a hand-argued lemma about the loop's input, assumed (trusted) - listed in the evidence as such
            self.notes.append('TRUSTED LEMMA assumed at loop #%d entry: %s' % (ordinal, lem[0]))
            self.assume(self.spec_bool(lem[1], dict(self.st.env)))
        self.check_inv(L, 'entry', ordinal)
        self.havoc_for_loop(s.body, L)
        i = z3.Int(fresh_name('loop_i'))
        self.assume(z3.And(0 <= i, i <= n))
        self.st.env[iname] = mk_int(i)
        self.st.env[sname] = src
        self.st.env['loop_i%d' % ordinal] = mk_int(i)
        self.st.env['loop_seq%d' % ordinal] = src
        self.check_inv(L, 'assume', ordinal, assume_only=True)
        if self.choice([i < n, i == n], 'for#%d' % ordinal) == 0:
            self.assign(s.target, self.list_at(src, i))
            for x in ([self.st.env[s.target.id]] if isinstance(s.target, ast.Name) else []):
                self.assume_type(x)
            try:
                self.exec_block(s.body)
            except ContinueSig:
                pass
            except BreakSig:
                del self.loop_old_stack[depth_los - 1:]
                self._restore_loop_vars(iname, sname, saved_i, saved_s)
                return
            except BaseException:
                del self.loop_old_stack[depth_los - 1:]
                raise
            self.st.env[iname] = mk_int(i + 1)
            self.st.env[sname] = src
            self.st.env['loop_i%d' % ordinal] = mk_int(i + 1)
            self.check_inv(L, 'preserved', ordinal)
            self.check_frame('loop#%d' % ordinal)
            raise DeadPath('loop body done')
        self.st.env['loop_i%d' % ordinal] = mk_int(n)
        del self.loop_old_stack[depth_los - 1:]
        self._restore_loop_vars(iname, sname, saved_i, saved_s)

    def _restore_loop_vars(self, iname, sname, saved_i, saved_s):
        for nm, sv in ((iname, saved_i), (sname, saved_s)):
            if sv is None:
                self.st.env.pop(nm, None)
            else:
                self.st.env[nm] = sv

    def s_While(self, s):
        if s.orelse:
            raise Unsupported('while-else')
        ordinal = self.loop_ordinal(s)
        L = self.loop_contract(s, ordinal)
        if not hasattr(self, 'loop_old_stack'):
            self.loop_old_stack = []
        self.loop_old_stack.append(self.st.snapshot())
        depth_los = len(self.loop_old_stack)
        try:
            self._while_body(s, L, ordinal)
        finally:
            del self.loop_old_stack[depth_los - 1:]

    def _while_body(self, s, L, ordinal):
        self.check_inv(L, 'entry', ordinal)
        self.havoc_for_loop(s.body + [ast.Expr(value=s.test)], L)
        self.check_inv(L, 'assume', ordinal, assume_only=True)
        c = self.truth(self.eval(s.test))
        if self.branch(c, 'while#%d' % ordinal):
            try:
                self.exec_block(s.body)
            except ContinueSig:
                pass
            except BreakSig:
                return
            self.check_inv(L, 'preserved', ordinal)
            self.check_frame('loop#%d' % ordinal)
            raise DeadPath('loop body done')

    # ------------------------------------------------------------------ try / with
    def handler_names(self, h: ast.ExceptHandler):
        if h.type is None:
            return None
        ts = h.type.elts if isinstance(h.type, ast.Tuple) else [h.type]
        names = []
        for t in ts:
            v = self.eval(t)
            if v.ty.kind != 'py' or v.py[0] != 'cls':
                raise Unsupported('except clause with non-class %s' % ast.unparse(t))
            names.append(v.py[1])
        return names

    def s_Try(self, s):
        if not hasattr(self, 'try_stack'):
            self.try_stack = []
        caught = []
        for h in s.handlers:
            nm = self.handler_names(h)
            caught.append(nm)
        all_names = None if any(c is None for c in caught) else [x for c in caught for x in c]

        def run_body():
            pushed = bool(s.handlers)
            if pushed:
                self.try_stack.append(all_names)
            try:
                self.exec_block(s.body)
            except RaiseSig as sig:
                if pushed:
                    self.try_stack.pop()
                    pushed = False
                self.dispatch_handlers(s, caught, sig)
                return
            finally:
                if pushed:
                    self.try_stack.pop()
            self.exec_block(s.orelse)

        if not s.finalbody:
            run_body()
            return
        try:
            run_body()
        except Signal as sig:
            self.st.trace.append('finally(after %s)' % type(sig).__name__)
            self.exec_block(s.finalbody)
            raise sig
        self.exec_block(s.finalbody)

    def dispatch_handlers(self, s, caught, sig: RaiseSig):
        e = sig.exc
        for h, names in zip(s.handlers, caught):
            if names is None:
                cond = z3.BoolVal(True)
            else:
                cond = z3.Or(*[smt.issub(smt.tag(e.term), smt.CLASSES[nm]) for nm in names])
            if self.branch(cond, 'except'):
                if h.name:
                    self.st.env[h.name] = e
                self.st.handling.append((e, sig.origin))
                try:
                    self.exec_block(h.body)
                finally:
                    self.st.handling.pop()
                return
        raise sig

    def s_With(self, s):
        self.run_with(list(s.items), s.body, False)

    def s_AsyncWith(self, s):
        self.run_with(list(s.items), s.body, True)

    def run_with(self, items, body, is_async: bool):
        item, rest = items[0], items[1:]
        cmv = self.eval(item.context_expr)
        h = self.cm_handler(cmv, is_async)
        val = h['enter'](self, cmv)
        if item.optional_vars is not None:
            self.assign(item.optional_vars, val)
        try:
            if rest:
                self.run_with(rest, body, is_async)
            else:
                self.exec_block(body)
        except Signal as sig:
            new = h['exit'](self, cmv, sig)
            if new is not None:
                raise new
            return  # suppressed
        h['exit'](self, cmv, None)

    def cm_handler(self, cmv: V, is_async: bool) -> dict:
        if cmv.ty.kind == 'py' and cmv.py[0] == 'cm':
            return self.spec.builtins['cm:' + cmv.py[1]]
        if cmv.ty.kind == 'obj':
            cls = cmv.ty.cls
            en = self.spec.methods.get((cls, '__aenter__' if is_async else '__enter__'))
            ex = self.spec.methods.get((cls, '__aexit__' if is_async else '__exit__'))
            if isinstance(en, str) and isinstance(ex, str):
                Cen, Cex = self.spec.functions[en], self.spec.functions[ex]

                def enter(self_, v):
                    return self_.apply_contract(Cen, {'self': v})

                def exit_(self_, v, sig):
                    args = {'self': v}
                    for p in list(Cex.params)[1:]:
                        args[p] = coerce(mk_none(), Cex.params[p]) if sig is None or not isinstance(sig, RaiseSig) else (sig.exc if p == 'exc_val' else fresh(Cex.params[p], p))
                    self_.apply_contract(Cex, args)
                    return sig

                return {'enter': enter, 'exit': exit_}
        raise Unsupported('context manager %r' % (cmv,))

    # ------------------------------------------------------------------ nested defs
    def s_FunctionDef(self, s):
        key = self.C.key + '.<locals>.' + s.name
        f = self.fresh_obj('function', 'closure_' + s.name)     # a function object with its own identity
        self.st.env[s.name] = V(obj('Handler'), f.term, py=('closure', key, s))

    def s_AsyncFunctionDef(self, s):
        self.s_FunctionDef(s)


def Clause_of(c):
    from .spec import Clause
    return Clause.of(c)
