"""Symbolic execution of the real function ASTs against sidecar contracts (see DESIGN.md section 3)."""
from __future__ import annotations

import ast

import os
import z3

from . import smt
from .core import _has_quantifier
from .core import (BreakSig, Chooser, ContinueSig, DeadPath, PathBudget, PathState, RaiseSig, ReturnSig, Signal)
from .smt import NONE, Obligation, Ref
from .spec import Clause, FnContract, Interference, RaisesClause, Spec
from .values import (ANY, BOOL, INT, PY, REAL, STR, Ty, Unsupported, V, coerce, fresh, fresh_name, from_smt, mk_bool,
                     mk_int, mk_none, mk_real, mk_str, obj, parse_ty, to_smt)

MOD = Ref.obj(z3.IntVal(0))   # owner of module-level mutable globals


class ExecBase:
    """State helpers shared by the expression/statement/call layers."""

    def __init__(self, spec: Spec):
        self.spec = spec
        self.st: PathState = None  # type: ignore
        self.ch: Chooser = None  # type: ignore
        self.C: FnContract = None  # type: ignore
        self.obligations: list[Obligation] = []
        self.spec_mode = 0
        self.old_stack: list[dict] = []
        self.entry = None
        self.seg = None
        self.cur_line = 0
        self.notes: list[str] = []
        self.dropped: set[str] = set()
        self.counters: dict[str, int] = {}

    # ------------------------------------------------------------------ pc / obligations
    def assume(self, f):
        if z3.is_true(f):
            return
        self.st.pc.append(f)

    def oblige(self, kind: str, label: str, goal, tags=(), meta=None):
        """Record proof obligation (pc |= goal), then continue under the assumption that it holds."""
        goal = goal if z3.is_expr(goal) else z3.BoolVal(bool(goal))
        if self.spec_mode:
            return
        g = z3.simplify(goal)
        if self.ch.fresh_part:
            name = '%s/%s:%s' % (self.C.key, kind, label)
            if z3.is_true(g):
                # discharged by the simplifier: recorded (without its path condition) so that the clause is part of the baseline - on a
                # changed tree the same clause may no longer be trivial, and an open verdict on it must count as a regression
                key = (name, 'trivial')
                seen = self.__dict__.setdefault('_trivial_seen', set())
                if key not in seen:
                    seen.add(key)
                    self.obligations.append(Obligation(name, [], z3.BoolVal(True), tags, {'line': self.cur_line, 'trace': [], 'trivial': True}))
            else:
                m = {'line': self.cur_line, 'trace': list(self.st.trace)}
                if meta:
                    m.update(meta)
                self.obligations.append(Obligation(name, self.st.pc, goal, tags, m))
        if kind == 'ensures' and _has_quantifier(goal):
            return      # exit-time clause: later clauses do not build on it, and one more quantified fact only slows them down
        self.assume(goal)

    def branch(self, cond, label: str) -> bool:
        cs = z3.simplify(cond)
        if z3.is_true(cs):
            return True
        if z3.is_false(cs):
            return False
        i = self.ch.choose(self.st, [cond, z3.Not(cond)], '%s@%d' % (label, self.cur_line))
        return i == 0

    def choice(self, options, label: str) -> int:
        return self.ch.choose(self.st, options, '%s@%d' % (label, self.cur_line))

    # ------------------------------------------------------------------ heap
    def cur_heap(self) -> dict:
        return self.old_stack[-1]['heap'] if self.old_stack else self.st.heap

    def cur_ghost(self) -> dict:
        return self.old_stack[-1]['ghost'] if self.old_stack else self.st.ghost

    def field_ty(self, name: str) -> Ty:
        if name not in self.spec.fields:
            raise Unsupported('attribute .%s is not in the field schema' % name)
        return self.spec.fields[name]

    def heap_arr(self, name: str, heap=None):
        heap = self.cur_heap() if heap is None else heap
        if name not in heap:
            # A field is materialised lazily. Its array is named after the *epoch* of the heap it is first read in: every
            # havoc-everything (suspension point, loop with a suspension) starts a new epoch, so a field first touched after
            # such a havoc is NOT identified with its value before it.  Same epoch + same field => same array (deterministic name).
            ty = self.field_ty(name)
            ep = heap.get('$epoch', 0)
            arr = z3.Const('H%d.%s' % (ep, name), z3.ArraySort(Ref, ty.sort()))
            heap[name] = arr
            others = [self.st.heap, self.entry['heap'] if self.entry is not None else None, self.seg['heap'] if self.seg is not None else None,
                      getattr(self, 'frame_base', {}).get('heap0')] + [s['heap'] for s in self.old_stack]
            for h in others:
                if h is not None and h is not heap and h.get('$epoch', 0) == ep and name not in h:
                    h[name] = arr
            fb = getattr(self, 'frame_base', None)
            if fb is not None and ep != 0 and self.st.heap.get(name) is arr:
                fb['heap'].setdefault(name, arr)     # first touched in this epoch: that value is the baseline of this task's own writes
        return heap[name]

    def read_field(self, ref, name: str) -> V:
        ty = self.field_ty(name)
        arr = self.heap_arr(name)
        logs = getattr(self, 'reads_log', None)
        if logs:
            logs[-1].append((name, arr))
        term = z3.Select(arr, ref)
        v = from_smt(ty, term)
        if ty.kind in ('list', 'dict', 'set'):
            v.loc = ('field', name, ref)
        if ty.kind == 'dict' and self.C is not None and name in self.C.wf_fields and not getattr(self, 'spec_locals', None):
            memo = self.st.flags.setdefault('wf_assumed', {})
            k = term.get_id()
            if not (k in memo and memo[k].eq(term)):
                memo[k] = term
                self.assume(self.dict_wf(v))
        if not self.spec_mode:
            self.assume_type(v)
        elif ty.kind == 'list':
            self.assume(ty.sort().len(term) >= 0)     # true of every list, whatever the heap
        elif ty.kind == 'dict':
            self.assume(ty.sort().n(term) >= 0)
        return v

    def write_field(self, ref, name: str, val: V):
        if self.old_stack:
            raise Unsupported('write inside old()')
        ty = self.field_ty(name)
        val = coerce(val, ty)
        self.st.heap[name] = z3.Store(self.heap_arr(name), ref, to_smt(val))
        self.st.flags['heap_version'] = self.st.flags.get('heap_version', 0) + 1

    def read_loc(self, loc) -> V:
        k = loc[0]
        if k == 'field':
            return self.read_field(loc[2], loc[1])
        if k == 'local':
            return self.st.env[loc[1]]
        if k == 'ghost':
            return self.cur_ghost()[loc[1]]
        if k == 'item':
            parent = self.read_loc(loc[1])
            v = self.dict_get_raw(parent, loc[2])
            v.loc = loc
            return v
        raise Unsupported('loc %r' % (loc,))

    def write_loc(self, loc, val: V):
        k = loc[0]
        if k == 'field':
            self.write_field(loc[2], loc[1], val)
        elif k == 'local':
            val = V(val.ty, val.term, loc, val.py)
            self.st.env[loc[1]] = val
        elif k == 'ghost':
            self.st.ghost[loc[1]] = V(val.ty, val.term, loc, val.py)
        elif k == 'item':
            parent = self.read_loc(loc[1])
            newp = self.dict_set(parent, loc[2], val)
            self.write_loc(loc[1], newp)
        else:
            raise Unsupported('loc %r' % (loc,))

    def refresh(self, v: V) -> V:
        """Mutable containers bound to a location are aliases: re-read them on every use."""
        if v.loc is not None and v.ty.kind in ('list', 'dict', 'set') and v.loc[0] in ('field', 'item', 'ghost'):
            r = self.read_loc(v.loc)
            r.loc = v.loc
            return r
        return v

    def is_alloc(self, r, now=None):
        return smt.born(r) < (self.st.now if now is None else now)

    # ------------------------------------------------------------------ typing facts
    def assume_type(self, v: V):
        t = v.ty
        if t.kind == 'obj':
            c = t.cls
            if c in ('any', None):
                return
            if c == 'NoneType':
                self.assume(v.term == NONE)
                return
            facts = []
            if c == 'optint':
                facts.append(z3.Or(v.term == NONE, Ref.is_bint(v.term)))
            elif c == 'optreal':
                facts.append(z3.Or(v.term == NONE, Ref.is_breal(v.term), Ref.is_bint(v.term)))
            elif c == 'optbool':
                facts.append(z3.Or(v.term == NONE, Ref.is_bbool(v.term)))
            elif c == 'str':
                facts.append(z3.Or(v.term == NONE, Ref.is_str(v.term)) if t.opt else Ref.is_str(v.term))
            else:
                inv = getattr(self.spec, 'type_invariants', {}).get(c)
                if inv is not None and not self.spec_mode:
                    try:
                        f = self.spec_bool(inv, {'x': V(Ty('obj', cls=c), v.term)})
                        facts.append(z3.Or(v.term == NONE, f))
                    except RecursionError:
                        pass
                cid = smt.CLASSES.get(c)
                if cid is not None:
                    f = smt.issub(smt.tag(v.term), cid)
                    facts.append(z3.Or(v.term == NONE, f) if t.opt else z3.And(v.term != NONE, f))
                elif not t.opt:
                    facts.append(v.term != NONE)
            for f in facts:
                self.assume(f)
        elif t.kind == 'list':
            self.assume(t.sort().len(v.term) >= 0)
        elif t.kind == 'dict':
            self.assume(t.sort().n(v.term) >= 0)
        elif t.kind == 'tuple':
            for x in v.term:
                self.assume_type(x)

    def class_facts(self, v: V) -> list:
        """The class-membership part of assume_type as formulas (no type invariants): used for elements read under a quantifier."""
        t = v.ty
        if t.kind != 'obj' or t.cls in ('any', None, 'NoneType') or t.cls.startswith('opt'):
            return []
        if t.cls == 'str':
            return [z3.Or(v.term == NONE, Ref.is_str(v.term)) if t.opt else Ref.is_str(v.term)]
        cid = smt.CLASSES.get(t.cls)
        if cid is None:
            return [] if t.opt else [v.term != NONE]
        f = smt.issub(smt.tag(v.term), cid)
        return [z3.Or(v.term == NONE, f) if t.opt else z3.And(v.term != NONE, f)]

    def fresh_obj(self, cls: str, base='new') -> V:
        oid = z3.Int(fresh_name(base + '_' + cls))
        r = Ref.obj(oid)
        self.assume(smt.born(r) == self.st.now)
        self.assume(oid > 0)
        cid = smt.CLASSES.get(cls)
        if cid is not None:
            self.assume(smt.tag(r) == cid)
        self.st.now = self.st.now + 1
        return V(obj(cls), r)

    def fresh_exc(self, cls, base='exc', exact=False) -> V:
        """A fresh exception object whose class is (a subclass of) cls."""
        names = (cls,) if isinstance(cls, str) else tuple(cls)
        oid = z3.Int(fresh_name(base))
        r = Ref.obj(oid)
        self.assume(smt.born(r) == self.st.now)
        self.assume(oid > 0)
        if exact and len(names) == 1:
            self.assume(smt.tag(r) == smt.CLASSES[names[0]])
        else:
            self.assume(z3.Or(*[smt.issub(smt.tag(r), smt.CLASSES[n]) for n in names]))
        self.assume(smt.issub(smt.tag(r), smt.CLASSES['BaseException']))
        self.st.now = self.st.now + 1
        return V(obj('BaseException'), r)

    def raise_new(self, cls: str, origin=''):
        raise RaiseSig(self.fresh_exc(cls, exact=True), origin or cls)

    # ------------------------------------------------------------------ truthiness
    def truth(self, v: V):
        v = self.refresh(v)
        t = v.ty
        if t.kind == 'bool':
            return v.term
        if t.kind == 'int':
            return v.term != 0
        if t.kind == 'real':
            return v.term != 0
        if t.kind == 'list':
            return t.sort().len(v.term) > 0
        if t.kind == 'dict':
            return t.sort().n(v.term) > 0
        if t.kind == 'tuple':
            return z3.BoolVal(len(v.term) > 0)
        if t.kind == 'set':
            x = z3.Const(fresh_name('sx'), t.args[0].sort())
            return z3.Exists([x], z3.Select(v.term, x))
        if t.kind == 'py':
            return z3.BoolVal(True)
        if t.kind == 'obj':
            c = t.cls
            if c == 'NoneType':
                return z3.BoolVal(False)
            if c == 'str':
                return z3.And(v.term != NONE, v.term != smt.strlit(''))
            if c == 'type':
                return v.term != NONE
            if c == 'optint':
                return z3.And(v.term != NONE, smt.unbox_int(v.term) != 0)
            if c == 'optreal':
                return z3.And(v.term != NONE, z3.If(Ref.is_bint(v.term), smt.unbox_int(v.term) != 0, smt.unbox_real(v.term) != 0))
            if c == 'optbool':
                return z3.And(v.term != NONE, smt.unbox_bool(v.term))
            if c == 'any':
                if self.C is not None and getattr(self.C, 'any_containers', False) and 'dict_items' in self.spec.fields:
                    # (per-function option) a value of type Any that is a dict / list object is truthy iff it is non-empty (A10)
                    d = self.read_field(v.term, 'dict_items')
                    out = z3.If(smt.issub(smt.tag(v.term), smt.CLASSES['dict']), d.ty.sort().n(d.term) > 0, smt.truthy_any(v.term))
                    if 'list_items' in self.spec.fields:
                        l = self.read_field(v.term, 'list_items')
                        out = z3.If(smt.issub(smt.tag(v.term), smt.CLASSES['list']), l.ty.sort().len(l.term) > 0, out)
                    return out
                return smt.truthy_any(v.term)
            return v.term != NONE   # plain objects without __bool__/__len__ are truthy
        raise Unsupported('truthiness of %r' % (t,))

    # ------------------------------------------------------------------ lists
    def list_len(self, v: V):
        return v.ty.sort().len(v.term)

    def list_elems(self, v: V):
        return v.ty.sort().elems(v.term)

    def list_at(self, v: V, i) -> V:
        return from_smt(v.ty.args[0], z3.Select(self.list_elems(v), i))

    def mk_list(self, elem_ty: Ty, elems, n) -> V:
        t = Ty('list', (elem_ty,))
        return V(t, t.sort().mk(elems, n))

    def list_append(self, v: V, x: V) -> V:
        x = coerce(x, v.ty.args[0])
        return V(v.ty, v.ty.sort().mk(z3.Store(self.list_elems(v), self.list_len(v), to_smt(x)), self.list_len(v) + 1), v.loc)

    def list_contains(self, v: V, x: V):
        x = coerce(x, v.ty.args[0])
        j = z3.Int(fresh_name('j'))
        return z3.Exists([j], z3.And(0 <= j, j < self.list_len(v), z3.Select(self.list_elems(v), j) == to_smt(x)))

    # ------------------------------------------------------------------ dicts
    def dict_parts(self, v: V):
        s = v.ty.sort()
        return s.keys(v.term), s.n(v.term), s.has(v.term), s.val(v.term), s.idx(v.term)

    def dict_has_term(self, v: V, kt):
        """k in d  <=>  0 <= idx[k] < n and keys[idx[k]] == k   (membership is derived from the ordered key list, so an empty
        dict has no members and no separate representation invariant is needed for it)"""
        keys, n, _, val, idx = self.dict_parts(v)
        ix = z3.Select(idx, kt)
        return z3.And(0 <= ix, ix < n, z3.Select(keys, ix) == kt)

    def dict_has(self, v: V, k: V):
        k = coerce(k, v.ty.args[0])
        return self.dict_has_term(v, to_smt(k))

    def dict_get_raw(self, v: V, k) -> V:
        kt = to_smt(coerce(k, v.ty.args[0])) if isinstance(k, V) else k
        return from_smt(v.ty.args[1], z3.Select(self.dict_parts(v)[3], kt))

    def dict_set(self, v: V, k, x: V) -> V:
        kt = to_smt(coerce(k, v.ty.args[0])) if isinstance(k, V) else k
        keys, n, has, val, idx = self.dict_parts(v)
        x = coerce(x, v.ty.args[1])
        present = self.dict_has_term(v, kt)
        s = v.ty.sort()
        nv = s.mk(z3.If(present, keys, z3.Store(keys, n, kt)), z3.If(present, n, n + 1), z3.Store(has, kt, True),
                  z3.Store(val, kt, to_smt(x)), z3.If(present, idx, z3.Store(idx, kt, n)))
        if not self.spec_mode and os.environ.get('PYVC_NAME_DICTS', '1') == '1':
            # name the updated dict: later occurrences are a constant instead of copies of the whole update term
            c = z3.Const(fresh_name('dset'), s)
            self.assume(c == nv)
            nv = c
        return V(v.ty, nv, v.loc)

    def dict_wf(self, v: V):
        """Representation invariant of an insertion-ordered dict (assumed on request, proved preserved by dict_set)."""
        keys, n, has, val, idx = self.dict_parts(v)
        i = z3.Int(fresh_name('i'))
        k = z3.Const(fresh_name('k'), v.ty.args[0].sort())
        return z3.And(
            n >= 0,
            z3.ForAll([i], z3.Implies(z3.And(0 <= i, i < n), z3.Select(idx, z3.Select(keys, i)) == i)),
        )

    # ------------------------------------------------------------------ misc
    def counter(self, name: str) -> int:
        self.counters[name] = self.counters.get(name, 0) + 1
        return self.counters[name]
