"""Expression layer of the symbolic executor."""
from __future__ import annotations

import ast
import os

import z3

from . import smt
from .core import RaiseSig
from .smt import NONE, Ref
from .symexec import MOD, ExecBase
from .values import (ANY, BOOL, INT, PY, REAL, STR, Ty, Unsupported, V, coerce, fresh, fresh_name, from_smt, mk_bool,
                     mk_int, mk_none, mk_real, mk_str, obj, parse_ty, to_smt)

PURE_NODES = (ast.Constant, ast.Name, ast.Attribute, ast.Compare, ast.BoolOp, ast.UnaryOp, ast.BinOp, ast.Subscript,
              ast.IfExp, ast.Tuple, ast.Load, ast.And, ast.Or, ast.Not, ast.cmpop, ast.operator, ast.unaryop)


def _has_lambda(e) -> bool:
    seen, stack = set(), [e]
    while stack:
        x = stack.pop()
        if x.get_id() in seen:
            continue
        seen.add(x.get_id())
        if z3.is_quantifier(x):
            if x.is_lambda():
                return True
            stack.append(x.body())
        elif z3.is_app(x):
            stack.extend(x.children())
    return False


class ExprMixin(ExecBase):

    # ------------------------------------------------------------------ names
    def lookup(self, name: str) -> V:
        st = self.st
        sl = getattr(self, 'spec_locals', None)
        if sl and name in sl:
            return sl[name]
        if self.old_stack and name in self.old_stack[-1].get('env', {}):
            return self.refresh(self.old_stack[-1]['env'][name])
        if name in st.env:
            return self.refresh(st.env[name])
        if name in self.cur_ghost():
            return self.refresh(self.cur_ghost()[name])
        if name in self.spec.ghosts:
            ty = self.spec.ghosts[name]
            v = V(ty, z3.Const('G0.' + name, ty.sort()))   # deterministic: the same initial value wherever it is first met
            v.loc = ('ghost', name)
            self.assume_type(v)
            self.cur_ghost()[name] = v
            for s in ([self.entry, self.seg] + self.old_stack):
                if s is not None:
                    s['ghost'].setdefault(name, v)
            self.st.ghost.setdefault(name, v)
            return v
        g = self.spec.globals.get(self.C.file, {}) if self.C is not None else {}
        if name in g:
            return self.global_value(name, g[name])
        g = self.spec.globals.get('*', {})
        if name in g:
            return self.global_value(name, g[name])
        raise Unsupported('unknown name %r in %s' % (name, self.C.key if self.C else '?'))

    def global_value(self, name, d) -> V:
        if isinstance(d, V):
            return d
        if isinstance(d, tuple) and d[0] == 'state':   # mutable module global -> field of $module
            return self.read_field(MOD, d[1])
        if isinstance(d, tuple) and d[0] == 'const':
            return d[1]
        return V(PY, py=d)

    # ------------------------------------------------------------------ entry point
    def eval(self, node: ast.AST) -> V:
        m = getattr(self, 'e_' + type(node).__name__, None)
        if m is None:
            raise Unsupported('expression %s at line %s' % (type(node).__name__, getattr(node, 'lineno', '?')))
        return m(node)

    def e_Constant(self, n):
        c = n.value
        if c is None:
            return mk_none()
        if isinstance(c, bool):
            return mk_bool(c)
        if isinstance(c, int):
            return mk_int(c)
        if isinstance(c, float):
            return mk_real(repr(c))
        if isinstance(c, str):
            return mk_str(c)
        if c is Ellipsis:
            return V(PY, py=('ellipsis',))
        raise Unsupported('constant %r' % (c,))

    def e_Name(self, n):
        return self.lookup(n.id)

    def e_Tuple(self, n):
        items = tuple(self.eval(e) for e in n.elts)
        return V(Ty('tuple', tuple(i.ty for i in items)), items)

    def e_List(self, n):
        if n.elts:
            items = [self.eval(e) for e in n.elts]
            et = items[0].ty
            arr = z3.K(z3.IntSort(), to_smt(fresh(et, 'dflt')))
            for i, x in enumerate(items):
                arr = z3.Store(arr, i, to_smt(coerce(x, et)))
            return self.mk_list(et, arr, z3.IntVal(len(items)))
        et = getattr(self, '_want_elem', None) or ANY
        return self.mk_list(et, z3.Const(fresh_name('empty'), z3.ArraySort(z3.IntSort(), et.sort())), z3.IntVal(0))

    def e_Set(self, n):
        items = [self.eval(e) for e in n.elts]
        et = items[0].ty
        arr = z3.K(et.sort(), z3.BoolVal(False))
        for x in items:
            arr = z3.Store(arr, to_smt(x), True)
        v = V(Ty('set', (et,)), arr)
        v.py = ('setlit', items)
        return v

    def e_Dict(self, n):
        if n.keys:
            raise Unsupported('non-empty dict display')
        t = getattr(self, '_want_dict', None) or Ty('dict', (ANY, ANY))
        return self.empty_dict(t)

    def empty_dict(self, t: Ty) -> V:
        s = t.sort()
        return V(t, s.mk(z3.Const(fresh_name('ek'), z3.ArraySort(z3.IntSort(), t.args[0].sort())), z3.IntVal(0),
                         z3.K(t.args[0].sort(), z3.BoolVal(False)), z3.Const(fresh_name('ev'), z3.ArraySort(t.args[0].sort(), t.args[1].sort())),
                         z3.Const(fresh_name('ei'), z3.ArraySort(t.args[0].sort(), z3.IntSort()))))

    def e_JoinedStr(self, n):
        """f-string used as data: an uninterpreted function of the formatted values, keyed by the template text."""
        parts = []
        tmpl = []
        for p in n.values:
            if isinstance(p, ast.Constant):
                tmpl.append(str(p.value))
            else:
                tmpl.append('{}')
                try:
                    self.spec_mode += 1
                    try:
                        v = self.eval(p.value)
                    finally:
                        self.spec_mode -= 1
                    parts.append(to_smt(coerce(v, ANY)) if v.ty.kind != 'obj' else v.term)
                except Unsupported:
                    parts.append(z3.Const(fresh_name('fmtarg'), Ref))
        name = 'fstr<' + ''.join(tmpl) + '>'
        if not parts:
            return mk_str(''.join(tmpl))
        f = z3.Function(name, *([Ref] * len(parts) + [Ref]))
        t = f(*parts)
        self.assume(Ref.is_str(t))
        if ''.join(tmpl) in self.spec.injective_fstrings:
            for i in range(len(parts)):
                inv = z3.Function(name + '^-1.%d' % i, Ref, Ref)
                self.assume(inv(t) == parts[i])
        return V(STR, t)

    def e_Lambda(self, n):
        return V(PY, py=('lambda', n, dict(self.st.env)))

    def e_IfExp(self, n):
        c = self.eval(n.test)
        if self.spec_mode:
            a, b = self.eval(n.body), self.eval(n.orelse)
            return self.ite(self.truth(c), a, b)
        if self.branch(self.truth(c), 'ifexp'):
            return self.eval(n.body)
        return self.eval(n.orelse)

    def ite(self, c, a: V, b: V) -> V:
        if a.ty.kind != b.ty.kind:
            if {a.ty.kind, b.ty.kind} <= {'int', 'real', 'bool'}:
                t = REAL if 'real' in (a.ty.kind, b.ty.kind) else INT
                a, b = coerce(a, t), coerce(b, t)
            else:
                a, b = coerce(a, ANY), coerce(b, ANY)
        if a.ty.kind == 'tuple':
            return V(a.ty, tuple(self.ite(c, x, y) for x, y in zip(a.term, b.term)))
        ty = a.ty if (a.ty.kind != 'obj' or a.ty.cls == b.ty.cls) else (b.ty if a.ty.cls == 'NoneType' else a.ty if b.ty.cls == 'NoneType' else ANY)
        if ty.kind == 'obj' and (a.ty.cls == 'NoneType' or b.ty.cls == 'NoneType') and ty.cls not in ('any', 'NoneType', 'optint', 'optreal', 'optbool'):
            ty = Ty('obj', ('opt',), cls=ty.cls)
        return V(ty, z3.If(c, to_smt(a), to_smt(b)))

    def e_BoolOp(self, n):
        is_and = isinstance(n.op, ast.And)
        if self.spec_mode:
            vs = [self.eval(v) for v in n.values]
            if all(v.ty.kind == 'bool' for v in vs):
                ts = [v.term for v in vs]
                return mk_bool(z3.And(*ts) if is_and else z3.Or(*ts))
            if len({(v.ty.kind, v.ty.cls if v.ty.kind == 'obj' else repr(v.ty)) for v in vs}) > 1 and not all(v.ty.kind == 'obj' for v in vs):
                # operands of different kinds: only the truth value of the whole expression is meaningful in a clause
                ts = [self.truth(v) for v in vs]
                return mk_bool(z3.And(*ts) if is_and else z3.Or(*ts))
            acc = vs[-1]
            for v in reversed(vs[:-1]):
                acc = self.ite(self.truth(v), acc, v) if is_and else self.ite(self.truth(v), v, acc)
            return acc
        v = None
        for i, sub in enumerate(n.values):
            v = self.eval(sub)
            if i == len(n.values) - 1:
                return v
            t = self.truth(v)
            go_on = self.branch(t if is_and else z3.Not(t), 'and' if is_and else 'or')
            if not go_on:
                return v
        return v

    def e_UnaryOp(self, n):
        v = self.eval(n.operand)
        if isinstance(n.op, ast.Not):
            return mk_bool(z3.Not(self.truth(v)))
        if isinstance(n.op, ast.USub):
            v = self.num(v)
            return V(v.ty, -v.term)
        if isinstance(n.op, ast.UAdd):
            return self.num(v)
        raise Unsupported('unary op')

    def num(self, v: V) -> V:
        if v.ty.kind in ('int', 'real'):
            return v
        if v.ty.kind == 'bool':
            return coerce(v, INT)
        if v.ty.kind == 'obj' and v.ty.cls == 'optint':
            return coerce(v, INT)
        if v.ty.kind == 'obj' and v.ty.cls == 'optreal':
            return V(REAL, z3.If(Ref.is_bint(v.term), z3.ToReal(smt.unbox_int(v.term)), smt.unbox_real(v.term)))
        raise Unsupported('not a number: %r' % (v,))

    def e_BinOp(self, n):
        a, b = self.eval(n.left), self.eval(n.right)
        op = n.op
        if a.ty.kind == 'list' and b.ty.kind == 'list' and isinstance(op, ast.Add):
            return self.list_concat(a, b)
        if isinstance(op, ast.Add) and a.ty.kind == 'obj' and b.ty.kind == 'obj' and a.ty.cls == 'str' and b.ty.cls == 'str':
            f = z3.Function('str_concat', Ref, Ref, Ref)
            t = f(a.term, b.term)
            self.assume(Ref.is_str(t))
            return V(STR, t)
        if isinstance(op, ast.BitAnd) and a.ty.kind == 'set' and b.ty.kind == 'set':
            x = z3.Const(fresh_name('x'), a.ty.args[0].sort())
            return V(a.ty, z3.Lambda([x], z3.And(z3.Select(a.term, x), z3.Select(b.term, x))))
        a, b = self.num(a), self.num(b)
        if isinstance(op, ast.Pow):
            if b.ty.kind == 'int':
                bs = z3.simplify(b.term)
                if z3.is_int_value(bs) and 0 <= bs.as_long() <= 4:
                    r = mk_int(1) if a.ty.kind == 'int' else mk_real(1)
                    for _ in range(bs.as_long()):
                        r = V(r.ty, r.term * a.term)
                    return r
                return V(REAL, smt.pow_real(coerce(a, REAL).term, b.term))
            raise Unsupported('** with non-integer exponent')
        if a.ty.kind == 'real' or b.ty.kind == 'real' or isinstance(op, ast.Div):
            a, b = coerce(a, REAL), coerce(b, REAL)
            ty = REAL
        else:
            ty = INT
        if isinstance(op, ast.Add):
            return V(ty, a.term + b.term)
        if isinstance(op, ast.Sub):
            return V(ty, a.term - b.term)
        if isinstance(op, ast.Mult):
            return V(ty, a.term * b.term)
        if isinstance(op, ast.Div):
            self.safety('ZeroDivisionError', b.term != 0, 'div')
            return V(REAL, a.term / b.term)
        if isinstance(op, ast.FloorDiv) and ty is INT:
            self.safety('ZeroDivisionError', b.term != 0, 'floordiv')
            return V(INT, a.term / b.term)
        if isinstance(op, ast.Mod) and ty is INT:
            self.safety('ZeroDivisionError', b.term != 0, 'mod')
            return V(INT, a.term % b.term)
        raise Unsupported('binary op %s' % type(op).__name__)

    def list_concat(self, a: V, b: V) -> V:
        i = z3.Int(fresh_name('i'))
        la, lb = self.list_len(a), self.list_len(b)
        elems = z3.Lambda([i], z3.If(i < la, z3.Select(self.list_elems(a), i), z3.Select(self.list_elems(b), i - la)))
        return self.mk_list(a.ty.args[0], elems, la + lb)

    def safety(self, exc_cls: str, ok, label: str):
        """An implicit exception source. If the contract allows the exception it becomes a path, else an obligation."""
        if self.spec_mode:
            return
        oks = z3.simplify(ok)
        if z3.is_true(oks):
            return
        allowed = self.C is not None and any(exc_cls in ((r.cls,) if isinstance(r.cls, str) else r.cls) or
                                             any(a in smt.ancestors(exc_cls) for a in ((r.cls,) if isinstance(r.cls, str) else r.cls))
                                             for r in self.C.raises if not r.caller_only and r.origin is None) or self.in_try_catching(exc_cls)
        if allowed:
            if not self.branch(ok, 'safety_' + label):
                self.raise_new(exc_cls, 'implicit:' + label)
        else:
            self.oblige('safety', '%s_%s' % (exc_cls, label), ok, tags=('safety',))

    def in_try_catching(self, exc_cls: str) -> bool:
        anc = smt.ancestors(exc_cls)
        for names in getattr(self, 'try_stack', []):
            if names is None or any(n in anc for n in names):
                return True
        return False

    # ------------------------------------------------------------------ comparisons
    def e_Compare(self, n):
        left = self.eval(n.left)
        conds = []
        for op, rn in zip(n.ops, n.comparators):
            right = self.eval(rn)
            conds.append(self.compare(op, left, right))
            left = right
        return mk_bool(z3.And(*conds) if len(conds) > 1 else conds[0])

    def eq(self, a: V, b: V):
        a, b = self.refresh(a), self.refresh(b)
        if a.ty.kind == 'py' or b.ty.kind == 'py':
            if a.ty.kind == 'py' and b.ty.kind == 'py':
                return z3.BoolVal(a.py == b.py)
            return coerce(a, ANY).term == coerce(b, ANY).term
        if (a.ty.kind in ('list', 'dict', 'set', 'tuple') and b.ty.kind == 'obj' and b.ty.cls == 'NoneType') or \
           (b.ty.kind in ('list', 'dict', 'set', 'tuple') and a.ty.kind == 'obj' and a.ty.cls == 'NoneType'):
            return z3.BoolVal(False)    # a container value is never None (parameters typed as containers are required to be given)
        if a.ty.kind == 'tuple' and b.ty.kind == 'tuple':
            if len(a.term) != len(b.term):
                return z3.BoolVal(False)
            return z3.And(*[self.eq(x, y) for x, y in zip(a.term, b.term)]) if a.term else z3.BoolVal(True)
        if a.ty.kind in ('int', 'real', 'bool') and b.ty.kind in ('int', 'real', 'bool'):
            if a.ty.kind != b.ty.kind:
                t = REAL if 'real' in (a.ty.kind, b.ty.kind) else INT
                a, b = coerce(a, t), coerce(b, t)
            return a.term == b.term
        if a.ty.kind == 'obj' and b.ty.kind in ('int', 'real', 'bool'):
            a, b = b, a
        if a.ty.kind in ('int', 'real', 'bool') and b.ty.kind == 'obj':
            if b.ty.cls in ('optint', 'optreal', 'optbool', 'any'):
                if a.ty.kind == 'real' or b.ty.cls == 'optreal':
                    return z3.And(b.term != NONE, self.num(V(obj('optreal'), b.term)).term == coerce(a, REAL).term)
                return z3.And(b.term != NONE, coerce(b, a.ty).term == a.term)
            return z3.BoolVal(False)
        if a.ty.kind == 'obj' and b.ty.kind == 'obj':
            return a.term == b.term
        if a.ty.kind == b.ty.kind and a.ty.kind in ('list', 'dict', 'set') and a.ty.sort() == b.ty.sort():
            if a.ty.kind == 'list':
                i = z3.Int(fresh_name('i'))
                return z3.And(self.list_len(a) == self.list_len(b),
                              z3.ForAll([i], z3.Implies(z3.And(0 <= i, i < self.list_len(a)),
                                                        z3.Select(self.list_elems(a), i) == z3.Select(self.list_elems(b), i))))
            return a.term == b.term
        raise Unsupported('== between %r and %r' % (a.ty, b.ty))

    def compare(self, op, a: V, b: V):
        if isinstance(op, (ast.Eq, ast.Is)):
            return self.eq(a, b)
        if isinstance(op, (ast.NotEq, ast.IsNot)):
            return z3.Not(self.eq(a, b))
        if isinstance(op, (ast.In, ast.NotIn)):
            r = self.contains(b, a)
            return r if isinstance(op, ast.In) else z3.Not(r)
        a, b = self.num(a), self.num(b)
        if a.ty.kind != b.ty.kind:
            a, b = coerce(a, REAL), coerce(b, REAL)
        if isinstance(op, ast.Lt):
            return a.term < b.term
        if isinstance(op, ast.LtE):
            return a.term <= b.term
        if isinstance(op, ast.Gt):
            return a.term > b.term
        if isinstance(op, ast.GtE):
            return a.term >= b.term
        raise Unsupported('comparison %s' % type(op).__name__)

    def contains(self, container: V, x: V):
        container = self.refresh(container)
        k = container.ty.kind
        if k == 'list':
            return self.list_contains(container, x)
        if k == 'dict':
            return self.dict_has(container, x)
        if k == 'set':
            return z3.Select(container.term, to_smt(coerce(x, container.ty.args[0])))
        if k == 'tuple':
            return z3.Or(*[self.eq(x, y) for y in container.term]) if container.term else z3.BoolVal(False)
        if k == 'obj' and container.ty.cls == 'str' and x.ty.kind == 'obj':
            f = z3.Function('str_contains', Ref, Ref, z3.BoolSort())
            return f(container.term, x.term)
        if k == 'obj' and container.ty.cls == 'PySet':
            m = self.read_field(container.term, 'set_members')
            return z3.Select(m.term, coerce(x, STR).term)
        if k == 'py' and container.py and container.py[0] == 'weakset':
            f = z3.Function('in_weakset', Ref, z3.BoolSort())
            return f(coerce(x, ANY).term)
        raise Unsupported("'in' on %r" % (container.ty,))

    # ------------------------------------------------------------------ attribute / subscript
    def e_Attribute(self, n):
        base = self.eval(n.value)
        return self.getattr(base, n.attr)

    def getattr(self, base: V, attr: str) -> V:
        if base.ty.kind == 'py':
            d = base.py
            if isinstance(d, tuple) and d[0] == 'mod':
                dotted = d[1] + '.' + attr
                g = self.spec.globals.get('*', {})
                if dotted in g:
                    return self.global_value(dotted, g[dotted])
                return V(PY, py=('fn', dotted))
            if isinstance(d, tuple) and d[0] == 'cls':
                key = ('static', d[1], attr)
                g = self.spec.globals.get('*', {})
                dotted = d[1] + '.' + attr
                if dotted in g:
                    return self.global_value(dotted, g[dotted])
                if attr == '__name__':
                    return mk_str(d[1])
                return V(PY, py=('fn', dotted))
            return V(PY, py=('method', base, attr))
        if base.ty.kind in ('list', 'dict', 'set', 'tuple'):
            return V(PY, py=('method', base, attr))
        if base.ty.kind == 'obj':
            cls = base.ty.cls
            pk = (cls, attr)
            if pk in self.spec.properties:
                return self.call_property(base, self.spec.properties[pk])
            if (cls, attr) in self.spec.methods or ('*', attr) in self.spec.methods:
                return V(PY, py=('method', base, attr))
            if attr in self.spec.fields:
                if not self.spec_mode and base.ty.opt and cls not in ('any',):
                    self.safety('AttributeError', base.term != NONE, 'none_' + attr)
                return self.read_field(base.term, attr)
            return V(PY, py=('method', base, attr))
        raise Unsupported('attribute .%s on %r' % (attr, base.ty))

    def e_Subscript(self, n):
        base = self.refresh(self.eval(n.value))
        if isinstance(n.slice, ast.Slice):
            return self.slice(base, n.slice)
        if base.ty.kind == 'py':
            # generic alias like CleanShutdownQueue['BaseEvent[Any]'] -> the class itself
            return base
        idx = self.eval(n.slice)
        return self.subscript(base, idx)

    def subscript(self, base: V, idx: V) -> V:
        k = base.ty.kind
        if k == 'tuple':
            i = z3.simplify(coerce(idx, INT).term)
            if not z3.is_int_value(i):
                raise Unsupported('symbolic tuple index')
            j = i.as_long()
            return base.term[j]
        if k == 'list':
            i = coerce(idx, INT).term
            n = self.list_len(base)
            self.safety('IndexError', z3.And(-n <= i, i < n), 'list_index')
            # in a clause, indices are written non-negative: the plain select keeps quantified clauses instantiable (triggers)
            i2 = i if self.spec_mode else z3.If(i < 0, i + n, i)
            r = self.list_at(base, i2)
            qf = getattr(self, 'qfacts', None)
            if self.spec_mode and qf and self.C is not None and getattr(self.C, 'typed_elements', False):
                # an element read under a quantifier: its class is known only through the declared element type (the same
                # well-typedness every concrete read assumes). For a list that does not depend on a quantified variable this is
                # assumed once for all its elements; otherwise it becomes a guard of the innermost quantifier.
                facts = self.class_facts(r)
                if facts:
                    from .calls import _free_consts
                    bound = {b.get_id() for bs in getattr(self, 'qbound', []) for b in bs}
                    if any(c.get_id() in bound for c in _free_consts(base.term)) or _has_lambda(base.term):
                        for f in facts:
                            qf[-1].append(z3.Implies(z3.And(0 <= i2, i2 < n), f))
                    else:
                        memo = self.st.flags.setdefault('typed_lists', {})
                        k = base.term.get_id()
                        if not (k in memo and memo[k].eq(base.term)):
                            memo[k] = base.term
                            j = z3.Int(fresh_name('ti'))
                            ej = self.list_at(base, j)
                            body = z3.Implies(z3.And(0 <= j, j < n), z3.And(*self.class_facts(ej)))
                            self.assume(z3.ForAll([j], body))
            return r
        if k == 'dict':
            if (not self.spec_mode and base.loc is not None and base.loc[0] == 'field' and base.loc[1] in getattr(self.spec, 'defaultdict_fields', ())
                    and base.ty.args[1].kind == 'list'):
                # collections.defaultdict(list): a missing key is inserted with an empty list
                if not self.branch(self.dict_has(base, idx), 'defaultdict_has_key'):
                    et = base.ty.args[1].args[0]
                    empty = self.mk_list(et, z3.K(z3.IntSort(), to_smt(fresh(et, 'dflt'))), z3.IntVal(0))
                    self.write_loc(base.loc, self.dict_set(base, idx, empty))
                    base = self.refresh(base)
            self.safety('KeyError', self.dict_has(base, idx), 'dict_key')
            v = self.dict_get_raw(base, idx)
            if base.loc is not None and v.ty.kind in ('list', 'dict', 'set'):
                v.loc = ('item', base.loc, to_smt(coerce(idx, base.ty.args[0])))
            if not self.spec_mode:
                self.assume_type(v)
            return v
        if k == 'obj' and base.ty.cls == 'str':
            return fresh(STR, 'substr')
        raise Unsupported('subscript on %r' % (base.ty,))

    def slice(self, base: V, sl: ast.Slice) -> V:
        if base.ty.kind == 'obj' and base.ty.cls == 'str':
            return fresh(STR, 'substr')
        if base.ty.kind != 'list' or sl.step is not None:
            raise Unsupported('slice of %r' % (base.ty,))
        n = self.list_len(base)

        def norm(e, default):
            if e is None:
                return default
            v = coerce(self.eval(e), INT).term
            v = z3.If(v < 0, v + n, v)
            return z3.If(v < 0, z3.IntVal(0), z3.If(v > n, n, v))

        lo, hi = norm(sl.lower, z3.IntVal(0)), norm(sl.upper, n)
        i = z3.Int(fresh_name('i'))
        elems = z3.Lambda([i], z3.Select(self.list_elems(base), i + lo))
        return self.mk_list(base.ty.args[0], elems, z3.If(hi > lo, hi - lo, z3.IntVal(0)))

    def e_Starred(self, n):
        raise Unsupported('starred expression outside a declared call site')

    def e_Await(self, n):
        if not isinstance(n.value, ast.Call):
            v = self.eval(n.value)
            if v.ty.kind == 'obj' and v.py and v.py[0] == 'task':
                return self.spec.builtins['Task#await'](self, v)
            if v.ty.kind == 'obj' and v.py and v.py[0] == 'future':
                return self.spec.builtins['Future#await'](self, v)
            return self.await_value(v)
        return self.eval_call(n.value, awaited=True)
