"""Core of the path-enumerating symbolic executor: signals, path state, choice points by re-execution."""
from __future__ import annotations

import z3

from . import smt
from .smt import NONE, Obligation
from .values import V, Ty, Unsupported, fresh, fresh_name


class Signal(Exception):
    pass


class RaiseSig(Signal):
    def __init__(self, exc: V, origin: str = ''):
        self.exc = exc
        self.origin = origin


class ReturnSig(Signal):
    def __init__(self, val: V):
        self.val = val


class BreakSig(Signal):
    pass


class ContinueSig(Signal):
    pass


class DeadPath(Exception):
    """The current path is infeasible or deliberately ended (e.g. after a loop-body invariant check)."""


class PathBudget(Exception):
    pass


class PathState:
    def __init__(self):
        self.pc: list = []
        self.env: dict[str, V] = {}
        self.heap: dict[str, object] = {}     # field -> z3 array Ref -> sort
        self.ghost: dict[str, V] = {}
        self.ctx: dict[str, V] = {}           # context variables of the current task (A7)
        self.trace: list[str] = []
        self.handling: list[V] = []
        self.tasks: list[dict] = []
        self.flags: dict = {}
        self.now = z3.Int('now0')

    def snapshot(self):
        return {'heap': dict(self.heap), 'ghost': dict(self.ghost), 'ctx': dict(self.ctx), 'env': dict(self.env), 'now': self.now}


_QCACHE: dict = {}


def _has_quantifier(e) -> bool:
    k = e.get_id()
    r = _QCACHE.get(k)
    if r is not None and r[0].eq(e):      # the cache pins the expression: z3 reuses AST ids of collected terms
        return r[1]
    seen = set()
    stack = [e]
    found = False
    while stack:
        x = stack.pop()
        i = x.get_id()
        if i in seen:
            continue
        seen.add(i)
        if z3.is_quantifier(x):
            found = True
            break
        stack.extend(x.children())
    _QCACHE[k] = (e, found)
    return found


class Chooser:
    """Depth-first enumeration of paths by re-execution: a path is identified by its list of decisions."""

    def __init__(self, axioms, budget=4000, feas_timeout_ms=1500):
        self.pending: list[list[int]] = [[]]
        self.prefix: list[int] = []
        self.taken: list[int] = []
        self.axioms = axioms
        self.paths = 0
        self.budget = budget
        self.feas_timeout_ms = feas_timeout_ms
        self.feas_checks = 0
        self._solver = None
        self._solver_pc = None
        self._solver_n = 0

    def next_path(self) -> bool:
        if not self.pending:
            return False
        self.prefix = self.pending.pop()
        self.taken = []
        self.paths += 1
        if self.paths > self.budget:
            raise PathBudget('more than %d paths' % self.budget)
        return True

    @property
    def fresh_part(self) -> bool:
        """True once the forced prefix has been consumed: obligations met from here on are new for this path."""
        return len(self.taken) >= len(self.prefix)

    def feasible(self, pc, extra) -> bool:
        """Pruning only: quantified assumptions are left out (fewer constraints can only keep more paths), so an
        infeasible path that needs them is explored and its obligations hold vacuously.
        One incremental solver per path: the path condition only grows, so conjuncts are added once."""
        self.feas_checks += 1
        s = self._solver
        if s is None or self._solver_pc is not pc or self._solver_n > len(pc):
            s = z3.Solver()
            s.set('timeout', self.feas_timeout_ms)
            for a in self.axioms:
                if not _has_quantifier(a):
                    s.add(a)
            self._solver, self._solver_pc, self._solver_n = s, pc, 0
        for p in pc[self._solver_n:]:
            if not _has_quantifier(p):
                s.add(p)
        self._solver_n = len(pc)
        if _has_quantifier(extra):
            return True
        s.push()
        s.add(extra)
        try:
            r = s.check()
        except z3.Z3Exception:
            r = z3.unknown
            self._solver = None
        if self._solver is not None:
            s.pop()
        return r != z3.unsat

    def choose(self, st: PathState, options: list, label: str) -> int:
        """options: list of z3 Bool conditions (or None for unconditional). Returns the index taken and assumes its condition."""
        k = len(self.taken)
        if k < len(self.prefix):
            i = self.prefix[k]
            self.taken.append(i)
            if options[i] is not None:
                st.pc.append(options[i])
            st.trace.append('%s=%d' % (label, i))
            return i
        feas = []
        for i, c in enumerate(options):
            if c is None:
                feas.append(i)
            else:
                cs = z3.simplify(c)
                if z3.is_false(cs):
                    continue
                if z3.is_true(cs) or self.feasible(st.pc, c):
                    feas.append(i)
        if not feas:
            raise DeadPath('no feasible option at ' + label)
        for j in reversed(feas[1:]):
            self.pending.append(self.taken + [j])
        i = feas[0]
        self.taken.append(i)
        self.prefix = list(self.taken)  # keep fresh_part true from now on
        if options[i] is not None:
            st.pc.append(options[i])
        st.trace.append('%s=%d' % (label, i))
        return i
