"""SMT layer of pyvc: sorts, class table, literals, list/dict/tuple datatypes, discharge pool.

Encoding summary (what of Python's semantics is assumed is listed in DESIGN.md section 4):
  int  -> Int (unbounded)      bool -> Bool      float/datetime -> Real
  every other value (objects, str, None, boxed optional numbers, exceptions, callables) -> sort Ref
  list[T] -> datatype (elems: Array Int T, len: Int)
  dict[K,V] -> datatype (keys: Array Int K, n: Int, has: Array K Bool, val: Array K V, idx: Array K Int)
  set[T] -> Array T Bool
  tuple -> python-side tuple of values; datatype when stored in a container
"""
from __future__ import annotations

import multiprocessing
import os
import subprocess
import tempfile
import time

import z3

_R = z3.Datatype('Ref')
_R.declare('none')
_R.declare('obj', ('oid', z3.IntSort()))        # heap objects, exceptions, callables, classes, opaque values
_R.declare('bint', ('ival', z3.IntSort()))       # boxed int (for Optional[int] / Any positions)
_R.declare('breal', ('rval', z3.RealSort()))
_R.declare('bbool', ('bval', z3.BoolSort()))
_R.declare('str', ('sid', z3.IntSort()))         # strings: literals have distinct non-negative sids
Ref = _R.create()
NONE = Ref.none
box_int, unbox_int = Ref.bint, Ref.ival
box_real, unbox_real = Ref.breal, Ref.rval
box_bool, unbox_bool = Ref.bbool, Ref.bval
otag = z3.Function('otag', z3.IntSort(), z3.IntSort())   # runtime class of a heap object
truthy_any = z3.Function('truthy_any', Ref, z3.BoolSort())   # truthiness of an opaque value
pow_real = z3.Function('pow_real', z3.RealSort(), z3.IntSort(), z3.RealSort())  # b ** k, uninterpreted (P1)
_nonobj_id = z3.Function('id_nonobj', Ref, z3.IntSort())
born = z3.Function('born', Ref, z3.IntSort())   # allocation stamp: r is allocated in a state iff born(r) < state.now


def obj_id(r):
    """id(): injective on heap objects (A10)."""
    return z3.If(Ref.is_obj(r), Ref.oid(r), _nonobj_id(r))


def tag(r):
    return z3.If(Ref.is_none(r), CLASSES['NoneType'], z3.If(Ref.is_bint(r), CLASSES['int'], z3.If(Ref.is_breal(r), CLASSES['float'],
           z3.If(Ref.is_bbool(r), CLASSES['bool'], z3.If(Ref.is_str(r), CLASSES['str'], otag(Ref.oid(r)))))))


def issub(t, cid: int):
    """t is (the id of) a subclass of class cid.  Finite class table: every exception class C also has a generic
    user-defined child 'User_C', so all isinstance outcomes reachable under single inheritance are represented."""
    name = _BYID[cid]
    ds = sorted(CLASSES[d] for d in CLASSES if name in ancestors(d))
    return z3.Or(*[t == d for d in ds])


# ---------------------------------------------------------------------------------------------
# class table.  Ids are small ints; the subclass relation for the known classes is ground facts,
# plus for every direct edge C<D a quantified closure axiom so that a symbolic tag inherits it.

CLASSES: dict[str, int] = {}
PARENTS: dict[str, tuple[str, ...]] = {}
_BYID: dict[int, str] = {}
_ANC: dict[str, frozenset] = {}


def defclass(name: str, *parents: str) -> int:
    if name not in CLASSES:
        CLASSES[name] = len(CLASSES) + 1
        PARENTS[name] = parents
        _BYID[CLASSES[name]] = name
        _ANC.clear()
    return CLASSES[name]


for _n, _p in [
    ('object', ()),
    ('NoneType', ('object',)), ('str', ('object',)), ('int', ('object',)), ('float', ('object',)), ('bool', ('int',)),
    ('type', ('object',)), ('Handler', ('object',)), ('function', ('Handler',)), ('method', ('Handler',)), ('datetime', ('object',)),
    ('dict', ('object',)), ('list', ('object',)), ('tuple', ('object',)), ('set', ('object',)),
    ('BaseException', ('object',)),
    ('Exception', ('BaseException',)),
    ('CancelledError', ('BaseException',)),
    ('KeyboardInterrupt', ('BaseException',)),
    ('RuntimeError', ('Exception',)), ('ValueError', ('Exception',)), ('TypeError', ('Exception',)),
    ('AssertionError', ('Exception',)), ('AttributeError', ('Exception',)), ('LookupError', ('Exception',)),
    ('KeyError', ('LookupError',)), ('IndexError', ('LookupError',)),
    ('OSError', ('Exception',)), ('FileNotFoundError', ('OSError',)), ('TimeoutError', ('OSError',)),
    ('QueueFull', ('Exception',)), ('QueueEmpty', ('Exception',)), ('QueueShutDown', ('Exception',)),
    ('InvalidStateError', ('Exception',)), ('ImportError', ('Exception',)), ('ModuleNotFoundError', ('ImportError',)),
    ('InterruptedError', ('OSError',)), ('ConnectionError', ('OSError',)), ('PermissionError', ('OSError',)), ('FileExistsError', ('OSError',)),
    ('NotImplementedError', ('RuntimeError',)), ('RecursionError', ('RuntimeError',)), ('ArithmeticError', ('Exception',)), ('ZeroDivisionError', ('ArithmeticError',)),
    ('StopIteration', ('Exception',)), ('StopAsyncIteration', ('Exception',)), ('NameError', ('Exception',)), ('EOFError', ('Exception',)), ('MemoryError', ('Exception',)),
    ('UnicodeError', ('ValueError',)), ('BufferError', ('Exception',)), ('SystemExit', ('BaseException',)), ('GeneratorExit', ('BaseException',)),
    ('BaseModel', ('object',)), ('BaseEvent', ('BaseModel',)), ('EventResult', ('BaseModel',)),
    ('EventBus', ('object',)), ('ReentrantLock', ('object',)), ('CleanShutdownQueue', ('object',)),
    ('AsyncEvent', ('object',)), ('Semaphore', ('object',)), ('Task', ('object',)), ('Future', ('object',)),
    ('Token', ('object',)), ('Loop', ('object',)), ('Path', ('object',)), ('Context', ('object',)),
    ('UserObject', ('object',)), ('Frame', ('object',)),
]:
    defclass(_n, *_p)


def ancestors(name: str) -> frozenset:
    if name not in _ANC:
        out = {name}
        for p in PARENTS.get(name, ()):
            out |= ancestors(p)
        _ANC[name] = frozenset(out)
    return _ANC[name]


for _n in [n for n in CLASSES if 'BaseException' in ancestors(n)]:
    defclass('User_' + _n, _n)


def classobj(name: str):
    """The class object itself as a value (e.g. result_type = int)."""
    return Ref.obj(z3.IntVal(-CLASSES[name]))


INJECTIVE_TEMPLATES: dict[str, int] = {}


def class_axioms() -> list:
    ax = [z3.Not(truthy_any(NONE))]
    for tmpl, arity in INJECTIVE_TEMPLATES.items():
        name = 'fstr<' + tmpl + '>'
        f = z3.Function(name, *([Ref] * arity + [Ref]))
        xs = [z3.Const('x%d!inj' % i, Ref) for i in range(arity)]
        invs = [z3.Function(name + '^-1.%d' % i, Ref, Ref) for i in range(arity)]
        ax.append(z3.ForAll(xs, z3.And(Ref.is_str(f(*xs)), *[invs[i](f(*xs)) == xs[i] for i in range(arity)]), patterns=[f(*xs)]))
    for name, cid in CLASSES.items():
        ax.append(otag(z3.IntVal(-cid)) == CLASSES['type'])
    return ax


# ---------------------------------------------------------------------------------------------
# string literals: distinct by construction (distinct sids)

_LITS: dict[str, z3.ExprRef] = {}


def strlit(s: str):
    if s not in _LITS:
        _LITS[s] = Ref.str(z3.IntVal(len(_LITS)))
    return _LITS[s]


def fresh_str_fact(t):
    """A string produced by an uninterpreted function is a str that is not one of the literals' sids (negative sid)."""
    return z3.And(Ref.is_str(t), Ref.sid(t) < 0)


def literal_axioms() -> list:
    return []


# ---------------------------------------------------------------------------------------------
# container datatypes (cached per element sort)

_DT: dict[str, object] = {}


def _sname(s) -> str:
    return str(s).replace(' ', '_').replace('(', '<').replace(')', '>').replace(',', '_')


def ListSort(elem):
    key = 'List_' + _sname(elem)
    if key not in _DT:
        d = z3.Datatype(key)
        d.declare('mk', ('elems', z3.ArraySort(z3.IntSort(), elem)), ('len', z3.IntSort()))
        _DT[key] = d.create()
    return _DT[key]


def DictSort(k, v):
    key = 'Dict_' + _sname(k) + '__' + _sname(v)
    if key not in _DT:
        d = z3.Datatype(key)
        d.declare('mk', ('keys', z3.ArraySort(z3.IntSort(), k)), ('n', z3.IntSort()),
                  ('has', z3.ArraySort(k, z3.BoolSort())), ('val', z3.ArraySort(k, v)), ('idx', z3.ArraySort(k, z3.IntSort())))
        _DT[key] = d.create()
    return _DT[key]


def TupleSort(sorts):
    key = 'Tup_' + '__'.join(_sname(s) for s in sorts)
    if key not in _DT:
        d = z3.Datatype(key)
        d.declare('mk', *[('f%d' % i, s) for i, s in enumerate(sorts)])
        _DT[key] = d.create()
    return _DT[key]


# ---------------------------------------------------------------------------------------------
# discharge

class Obligation:
    __slots__ = ('name', 'pc', 'goal', 'tags', 'meta', 'verdict', 'model', 'time', 'solver', 'reason')

    def __init__(self, name, pc, goal, tags=(), meta=None):
        self.name = name
        self.pc = list(pc)
        self.goal = goal
        self.tags = tuple(tags)
        self.meta = meta or {}
        self.verdict = None
        self.model = None
        self.time = 0.0
        self.solver = None
        self.reason = None


_OBLS: list[Obligation] = []
def _open_clauses_file() -> str:
    # shared by the worker processes of one run (they are children of the same driver process)
    return os.path.join(os.environ.get('PYVC_TMP', '/var/tmp'), 'open_clauses.%d' % os.getppid())


def _sync_open_clauses():
    try:
        with open(_open_clauses_file()) as f:
            _OPEN_IN_THIS_WORKER.update(l.strip() for l in f if l.strip())
    except OSError:
        pass


_OPEN_IN_THIS_WORKER: set = set()      # clause names with an instance left open (sat / unknown) by this process
_NO_RETRY: list[str] = []
_AXIOMS: list = []
_TIMEOUT_MS = 10000


def _model_to_text(m, limit=6000) -> str:
    lines = []
    for d in m.decls():
        try:
            v = m[d]
            s = str(v)
            if len(s) > 300:
                s = s[:300] + '…'
            lines.append(f'{d.name()} = {s}')
        except Exception:
            pass
    lines.sort()
    out = '\n'.join(lines)
    return out[:limit]


def _cvc5_check(smt2: str, timeout_s: int) -> str:
    with tempfile.NamedTemporaryFile('w', suffix='.smt2', delete=False, dir=os.environ.get('PYVC_TMP') or None) as f:
        f.write('(set-logic ALL)\n' + smt2 + '\n(check-sat)\n')
        path = f.name
    try:
        r = subprocess.run(['/usr/bin/cvc5', '--tlimit=%d' % (timeout_s * 1000), path], capture_output=True, text=True, timeout=timeout_s + 5)
        out = r.stdout.strip().splitlines()
        return out[0] if out else 'unknown'
    except Exception:
        return 'unknown'
    finally:
        try:
            os.unlink(path)
        except OSError:
            pass


def _ground_injectivity(exprs) -> list:
    """Ground instances of the injectivity of declared f-string templates for every application occurring in exprs."""
    out = []
    names = {'fstr<' + t + '>': a for t, a in INJECTIVE_TEMPLATES.items()}
    seen = set()
    stack = list(exprs)
    while stack:
        x = stack.pop()
        k = x.get_id()
        if k in seen:
            continue
        seen.add(k)
        if z3.is_quantifier(x):
            continue   # applications on bound variables are covered by the quantified axiom only
        if z3.is_app(x):
            nm = x.decl().name()
            if nm in names and x.num_args() == names[nm]:
                for i in range(x.num_args()):
                    inv = z3.Function(nm + '^-1.%d' % i, Ref, Ref)
                    out.append(inv(x) == x.arg(i))
                out.append(Ref.is_str(x))
            stack.extend(x.children())
    return out


_SYMS_CACHE: dict = {}
_IGNORED_SYMS = {'otag', 'born', 'truthy_any', 'id_nonobj'}


def _symbols(e) -> frozenset:
    """Uninterpreted constants and functions occurring in e (class table functions excluded: they are shared by everything)."""
    k = e.get_id()
    r = _SYMS_CACHE.get(k)
    if r is not None and r[0].eq(e):      # the cache pins the expression: z3 reuses AST ids of collected terms
        return r[1]
    out = set()
    seen = set()
    stack = [e]
    while stack:
        x = stack.pop()
        i = x.get_id()
        if i in seen:
            continue
        seen.add(i)
        if z3.is_quantifier(x):
            stack.append(x.body())
            continue
        if z3.is_app(x):
            d = x.decl()
            if d.kind() == z3.Z3_OP_UNINTERPRETED and d.name() not in _IGNORED_SYMS:
                out.add(d.name())
            stack.extend(x.children())
    r = frozenset(out)
    _SYMS_CACHE[k] = (e, r)
    return r


_FE_CACHE: dict = {}


def _has_forall_exists(e) -> bool:
    k = e.get_id()
    r = _FE_CACHE.get(k)
    if r is not None and r[0].eq(e):
        return r[1]
    seen, stack, found = set(), [e], False
    while stack:
        x = stack.pop()
        i = x.get_id()
        if i in seen:
            continue
        seen.add(i)
        if z3.is_quantifier(x):
            if not x.is_lambda():
                found = True
                break
            stack.append(x.body())
            continue
        stack.extend(x.children())
    _FE_CACHE[k] = (e, found)
    return found


def _relevant_slice(ob):
    want = set(_symbols(ob.goal))
    syms = [(p, _symbols(p)) for p in ob.pc]
    chosen = [False] * len(syms)
    changed = True
    while changed:
        changed = False
        for idx, (p, sy) in enumerate(syms):
            if not chosen[idx] and sy & want:
                chosen[idx] = True
                if not sy <= want:
                    want |= sy
                    changed = True
    return [p for idx, (p, _) in enumerate(syms) if chosen[idx]]




def _guarded_check(solver, budget_ms):
    """solver.check(); z3's own timeout is relied upon (an interrupt from a watchdog thread crashed worker processes).
    A solver call that overruns is handled by the per-task time limit of the path scheduler (verify.verify_many)."""
    try:
        return solver.check()
    except z3.Z3Exception:
        return z3.unknown


def _solve(ob, axioms, extra, timeout_ms):
    s = z3.Solver()
    s.set('timeout', timeout_ms)
    for a in axioms:
        s.add(a)
    for a in extra:
        s.add(a)
    for p in ob.pc:
        s.add(p)
    s.add(z3.Not(ob.goal))
    return s, _guarded_check(s, timeout_ms)


def _check_one(i: int):
    from .core import _has_quantifier
    ob = _OBLS[i]
    t0 = time.time()
    if ob.meta.get('trivial'):
        return i, 'unsat', None, 0.0, 'simplifier (goal is syntactically true on this path)', None
    ground_ax = [a for a in _AXIOMS if not z3.is_quantifier(a)]
    quant_ax = [a for a in _AXIOMS if z3.is_quantifier(a)]
    solver = 'z3'
    model = None
    reason = None
    if 'canary' in ob.tags:
        # vacuity probe: is the path condition satisfiable at this exit? (short budget; unknown counts as not refuted)
        from .core import _has_quantifier as _hq
        s0 = z3.Solver()
        s0.set('timeout', 2000)
        for a in ground_ax:
            s0.add(a)
        for p in ob.pc:
            if not _hq(p):
                s0.add(p)
        r0 = _guarded_check(s0, 2000)
        if r0 == z3.unsat:
            return i, 'unsat', None, time.time() - t0, 'z3', None
        if all(not _hq(p) for p in ob.pc):
            return i, ('sat' if r0 == z3.sat else 'unknown'), None, time.time() - t0, 'z3', None
        # the quantified part is not probed (z3 was seen to block on such satisfiable queries regardless of its timeout)
        return i, ('sat*' if r0 == z3.sat else 'unknown'), None, time.time() - t0, 'z3 (quantifier-free part only)', None
    if z3.is_false(z3.simplify(ob.goal)):
        # the goal is syntactically false on this path (e.g. a ghost counter that was not advanced): the obligation holds only if the
        # path is infeasible - one feasibility query decides what can be decided, the expensive phases cannot add anything
        sf, rf = _solve(ob, ground_ax, _ground_injectivity(list(ob.pc)) if quant_ax else [], min(_TIMEOUT_MS, 8000))
        mtxt = None
        if rf == z3.sat:
            try:
                mtxt = _model_to_text(sf.model())
            except Exception:
                mtxt = None
        return i, ('unsat' if rf == z3.unsat else 'sat' if rf == z3.sat else 'unknown'), mtxt, time.time() - t0, 'z3 (goal is false: feasibility of the path)', (None if rf != z3.unknown else sf.reason_unknown())
    # phase 0: only the quantifier-free part of the path condition (fewer assumptions: unsat is sound) - most obligations need no more
    qf_pc = [p for p in ob.pc if not _has_quantifier(p)]
    if len(qf_pc) < len(ob.pc):
        s0 = z3.Solver()
        s0.set('timeout', min(_TIMEOUT_MS, 3000))
        for a in ground_ax:
            s0.add(a)
        for p in qf_pc:
            s0.add(p)
        s0.add(z3.Not(ob.goal))
        if _guarded_check(s0, min(_TIMEOUT_MS, 3000)) == z3.unsat:
            return i, 'unsat', None, time.time() - t0, 'z3 (quantifier-free slice)', None
    # phase R: the goal-relevant slice of the path condition (conjuncts connected to the goal through shared uninterpreted symbols).
    # If that slice is quantifier-free, its verdict is final: unsat is sound (fewer assumptions); sat gives a counter-model of the
    # slice which extends to the whole path condition because the remaining conjuncts share no symbol with it (they are satisfiable
    # on a feasible path - the canaries probe that separately).
    try:
        rel = _relevant_slice(ob)
    except Exception:
        rel = None
    if os.environ.get('PYVC_NO_SLICE') != '1' and rel is not None and len(rel) < len(ob.pc) and all(not _has_quantifier(p) for p in rel):
        sr = z3.Solver()
        sr.set('timeout', min(_TIMEOUT_MS, 5000))
        for a in ground_ax:
            sr.add(a)
        for p in rel:
            sr.add(p)
        sr.add(z3.Not(ob.goal))
        rr = _guarded_check(sr, min(_TIMEOUT_MS, 5000))
        if rr == z3.unsat:
            return i, 'unsat', None, time.time() - t0, 'z3 (goal-relevant slice)', None
        if rr == z3.sat and not _has_quantifier(ob.goal):
            try:
                mtxt = _model_to_text(sr.model())
            except Exception:
                mtxt = None
            # the rest of the path condition must itself be satisfiable (otherwise the path is infeasible and the obligation vacuous)
            relids = {p.get_id() for p in rel}
            rest_qf = [p for p in ob.pc if p.get_id() not in relids and not _has_forall_exists(p)]   # lambdas (array terms) are fine here
            s2 = z3.Solver()
            s2.set('timeout', 3000)
            for a in ground_ax:
                s2.add(a)
            for p in rest_qf:
                s2.add(p)
            r2 = _guarded_check(s2, 3000)
            if r2 == z3.unsat:
                return i, 'unsat', None, time.time() - t0, 'z3 (path condition inconsistent: infeasible path)', None
            rest_all_decidable = all(not _has_forall_exists(p) for p in ob.pc if p.get_id() not in relids)
            if r2 == z3.sat and rest_all_decidable:
                return i, 'sat', mtxt, time.time() - t0, 'z3 (counter-model of the goal-relevant, quantifier-free slice of the path condition)', None
    # phase R2: the goal-relevant slice even when it contains quantified conjuncts: fewer (irrelevant) quantified facts, unsat is sound
    if os.environ.get('PYVC_NO_SLICE') != '1' and rel is not None and len(rel) < len(ob.pc):
        sr2 = z3.Solver()
        sr2.set('timeout', max(2000, _TIMEOUT_MS // 2))
        for a in ground_ax:
            sr2.add(a)
        for a in (_ground_injectivity(list(rel) + [ob.goal]) if quant_ax else []):
            sr2.add(a)
        for p in rel:
            sr2.add(p)
        sr2.add(z3.Not(ob.goal))
        if _guarded_check(sr2, max(2000, _TIMEOUT_MS // 2)) == z3.unsat:
            return i, 'unsat', None, time.time() - t0, 'z3 (goal-relevant slice incl. quantified assumptions)', None
    import re as _re0
    if any(_re0.fullmatch(pat, ob.name) for pat in _NO_RETRY):
        # an obligation of a listed, open known finding is expected to stay open: one short attempt on the full path condition only
        s, r = _solve(ob, ground_ax, [], min(_TIMEOUT_MS, 5000))
        if r == z3.unsat:
            return i, 'unsat', None, time.time() - t0, 'z3', None
        mtxt = None
        if r == z3.sat:
            try:
                mtxt = _model_to_text(s.model())
            except Exception:
                mtxt = None
        return i, ('sat' if r == z3.sat else 'unknown'), mtxt, time.time() - t0, 'z3 (short budget: obligation of an open known finding)', (None if r == z3.sat else s.reason_unknown())
    _sync_open_clauses()
    if ob.name in _OPEN_IN_THIS_WORKER:
        # another instance of this clause already stayed open in this worker after the full effort: the clause is open whatever this
        # instance says; only the cheap slice phases above were tried for it
        return i, 'unknown', None, time.time() - t0, 'z3 (slices only: the clause is already open in this worker)', 'clause already open'
    if quant_ax and _has_quantifier(ob.goal):
        # a quantified goal may need an instance of a quantified axiom on its skolem terms: a short first attempt with all axioms
        s0q, r0q = _solve(ob, _AXIOMS, _ground_injectivity(list(ob.pc) + [ob.goal]), min(_TIMEOUT_MS, 3000))
        if r0q == z3.unsat:
            return i, 'unsat', None, time.time() - t0, 'z3 (with the quantified axioms)', None
    # phase 1: quantifier-free axioms + ground injectivity instances (fewer axioms: unsat is sound, sat is a candidate)
    s, r = _solve(ob, ground_ax, _ground_injectivity(list(ob.pc) + [ob.goal]) if quant_ax else [], _TIMEOUT_MS)
    cand_model = None
    if r == z3.sat and quant_ax:
        try:
            cand_model = _model_to_text(s.model())
        except Exception:
            cand_model = None
        s, r2 = _solve(ob, _AXIOMS, [], min(_TIMEOUT_MS, 4000))   # phase 2: with the quantified axioms
        if r2 == z3.unknown:
            r = z3.sat
            solver = 'z3 (counter-model w.r.t. the ground instances of the quantified axioms)'
        else:
            r = r2
    if r == z3.unsat:
        verdict = 'unsat'
    elif r == z3.sat:
        verdict = 'sat'
        try:
            model = _model_to_text(s.model())
        except Exception as e:  # pragma: no cover
            model = cand_model or 'model unavailable: %r' % (e,)
    else:
        verdict = 'unknown'
        reason = s.reason_unknown()
        import re as _re
        if any(_re.fullmatch(pat, ob.name) for pat in _NO_RETRY):
            # an obligation of a listed, open known finding: it is expected to stay open; do not spend the retry budgets on it
            return i, verdict, None, time.time() - t0, solver, reason
        if ob.name in _OPEN_IN_THIS_WORKER:
            # another instance of this clause already stayed open in this worker after the full effort: the clause is open whatever
            # this instance says, so the expensive tail (leave-one-out, 3x budget, cvc5) is not repeated for every path
            return i, verdict, None, time.time() - t0, solver + ' (tail phases skipped: the clause is already open)', reason
        if quant_ax:
            # the quantified axioms themselves (injectivity of the declared f-string templates): needed when the application that
            # must be inverted occurs under a quantifier of the goal, where no ground instance exists before skolemisation
            s2q, r2q = _solve(ob, _AXIOMS, _ground_injectivity(list(ob.pc) + [ob.goal]), _TIMEOUT_MS)
            if r2q == z3.unsat:
                return i, 'unsat', None, time.time() - t0, 'z3 (with the quantified axioms)', None
        # leave-one-out over the quantified assumptions: an irrelevant quantified fact (another loop invariant, an earlier clause)
        # can send the instantiation engine astray; every such query has fewer assumptions, so unsat is sound
        qidx = [k for k, p in enumerate(ob.pc) if _has_quantifier(p) and _has_forall_exists(p)]
        if 2 <= len(qidx) <= 16 and os.environ.get('PYVC_NO_LOO') != '1':
            inj = _ground_injectivity(list(ob.pc) + [ob.goal]) if quant_ax else []
            for k in reversed(qidx):
                sl = z3.Solver()
                sl.set('timeout', 4000)
                for a in _AXIOMS:
                    sl.add(a)
                for a in inj:
                    sl.add(a)
                for j, p in enumerate(ob.pc):
                    if j != k:
                        sl.add(p)
                sl.add(z3.Not(ob.goal))
                if _guarded_check(sl, 4000) == z3.unsat:
                    return i, 'unsat', None, time.time() - t0, 'z3 (one quantified assumption left out)', None
        # before giving up (and before a previously discharged clause is reported as regressed): one more attempt with a 3x budget
        s3, r3 = _solve(ob, ground_ax, _ground_injectivity(list(ob.pc) + [ob.goal]) if quant_ax else [], _TIMEOUT_MS * 3)
        if r3 == z3.unsat:
            return i, 'unsat', None, time.time() - t0, 'z3 (3x budget)', None
        if os.environ.get('PYVC_NO_CVC5') != '1':
            try:
                r2 = _cvc5_check(s.to_smt2().replace('(check-sat)', ''), max(3, min(6, _TIMEOUT_MS // 2000)))
                if r2 == 'unsat':
                    verdict, solver = 'unsat', 'cvc5'
            except Exception:
                pass
    if verdict != 'unsat':
        _OPEN_IN_THIS_WORKER.add(ob.name)
        try:
            with open(_open_clauses_file(), 'a') as f:
                f.write(ob.name + '\n')
        except OSError:
            pass
    return i, verdict, model, time.time() - t0, solver, reason


def discharge(obls: list[Obligation], axioms: list, timeout_ms: int = 10000, procs: int | None = None):
    """Check every obligation (pc /\\ axioms |= goal) in a fork pool. Fills verdict/model/time in place."""
    global _OBLS, _AXIOMS, _TIMEOUT_MS
    _OBLS, _AXIOMS, _TIMEOUT_MS = obls, axioms, timeout_ms
    if not obls:
        return
    procs = procs or min(16, os.cpu_count() or 4, len(obls))
    if procs <= 1 or len(obls) == 1:
        results = [_check_one(i) for i in range(len(obls))]
    else:
        ctx = multiprocessing.get_context('fork')
        with ctx.Pool(procs) as pool:
            results = pool.map(_check_one, range(len(obls)), chunksize=1)
    for i, verdict, model, t, solver, reason in results:
        ob = obls[i]
        ob.verdict, ob.model, ob.time, ob.solver, ob.reason = verdict, model, t, solver, reason
