"""Type descriptors and symbolic values of pyvc."""
from __future__ import annotations

import itertools
import re

import z3

from . import smt
from .smt import NONE, Ref


class Unsupported(Exception):
    """The real code uses a construct the translator does not model: the function is refused (exit 2), never passed."""


class Ty:
    __slots__ = ('kind', 'args', 'cls')

    def __init__(self, kind, args=(), cls=None):
        self.kind = kind      # int bool real obj list dict set tuple py
        self.args = tuple(args)
        self.cls = cls        # for obj: class hint ('str','any','optint','optreal','optbool', 'EventBus', ...)

    @property
    def opt(self):
        return self.kind == 'obj' and ('opt' in self.args or self.cls in ('any', 'optint', 'optreal', 'optbool', 'NoneType'))

    def __repr__(self):
        if self.kind == 'obj':
            return ('opt[%s]' % self.cls) if 'opt' in self.args else (self.cls or 'any')
        if self.args:
            return '%s[%s]' % (self.kind, ','.join(map(repr, self.args)))
        return self.kind

    def __eq__(self, o):
        if not isinstance(o, Ty) or self.kind != o.kind:
            return False
        if self.kind == 'obj':
            return self.cls == o.cls
        return self.args == o.args

    def __hash__(self):
        return hash((self.kind, self.cls if self.kind == 'obj' else self.args))

    def sort(self):
        k = self.kind
        if k == 'int':
            return z3.IntSort()
        if k == 'bool':
            return z3.BoolSort()
        if k == 'real':
            return z3.RealSort()
        if k == 'obj':
            return Ref
        if k == 'list':
            return smt.ListSort(self.args[0].sort())
        if k == 'dict':
            return smt.DictSort(self.args[0].sort(), self.args[1].sort())
        if k == 'set':
            return z3.ArraySort(self.args[0].sort(), z3.BoolSort())
        if k == 'tuple':
            return smt.TupleSort([a.sort() for a in self.args])
        raise Unsupported('no SMT sort for type %r' % (self,))


INT, BOOL, REAL = Ty('int'), Ty('bool'), Ty('real')
ANY = Ty('obj', cls='any')
STR = Ty('obj', cls='str')
PY = Ty('py')


def obj(cls):
    return Ty('obj', cls=cls)


_TOK = re.compile(r'\s*([A-Za-z_][A-Za-z_0-9.]*|\[|\]|,)')


def parse_ty(s) -> Ty:
    if isinstance(s, Ty):
        return s
    toks = _TOK.findall(s)
    pos = 0

    def p():
        nonlocal pos
        name = toks[pos]
        pos += 1
        args = []
        if pos < len(toks) and toks[pos] == '[':
            pos += 1
            while toks[pos] != ']':
                args.append(p())
                if toks[pos] == ',':
                    pos += 1
            pos += 1
        if name in ('int', 'bool', 'real'):
            return Ty(name)
        if name == 'float':
            return REAL
        if name in ('list', 'dict', 'set', 'tuple'):
            return Ty(name, args)
        if name == 'opt':
            a = args[0]
            if a.kind == 'int':
                return obj('optint')
            if a.kind == 'real':
                return obj('optreal')
            if a.kind == 'bool':
                return obj('optbool')
            if a.kind == 'obj':
                return Ty('obj', ('opt',), cls=a.cls)
            raise Unsupported('opt[] of container type')
        return obj(name)

    return p()


_fresh = itertools.count()


def fresh_name(base: str) -> str:
    return '%s!%d' % (base, next(_fresh))


class V:
    """A symbolic value: static type + z3 term (python tuple of V for tuples; descriptor for 'py' values)."""
    __slots__ = ('ty', 'term', 'loc', 'py')

    def __init__(self, ty, term=None, loc=None, py=None):
        self.ty = ty
        self.term = term
        self.loc = loc     # write-back location for mutable containers
        self.py = py       # python-side descriptor for kind 'py'

    def __repr__(self):
        if self.ty.kind == 'py':
            return 'py<%r>' % (self.py,)
        return '%r:%s' % (self.ty, self.term if self.ty.kind != 'tuple' else tuple(self.term))


def fresh(ty: Ty, base='v') -> V:
    if ty.kind == 'tuple':
        return V(ty, tuple(fresh(a, base) for a in ty.args))
    return V(ty, z3.Const(fresh_name(base), ty.sort()))


def mk_none() -> V:
    return V(obj('NoneType'), NONE)


def mk_int(i) -> V:
    return V(INT, z3.IntVal(i) if isinstance(i, int) else i)


def mk_bool(b) -> V:
    return V(BOOL, z3.BoolVal(b) if isinstance(b, bool) else b)


def mk_real(x) -> V:
    return V(REAL, z3.RealVal(x) if isinstance(x, (int, float, str)) else x)


def mk_str(s: str) -> V:
    return V(STR, smt.strlit(s))


def to_smt(v: V):
    """z3 term of a value (tuples become datatype terms)."""
    if v.ty.kind == 'tuple':
        s = v.ty.sort()
        return s.mk(*[to_smt(x) for x in v.term])
    if v.ty.kind == 'py':
        raise Unsupported('python-side value %r used as data' % (v.py,))
    return v.term


def from_smt(ty: Ty, term) -> V:
    if ty.kind == 'tuple':
        s = ty.sort()
        return V(ty, tuple(from_smt(a, s.accessor(0, i)(term)) for i, a in enumerate(ty.args)))
    return V(ty, term)


def coerce(v: V, ty: Ty) -> V:
    """Convert a value to static type ty (boxing/unboxing numbers, int->real)."""
    if v.ty.kind == ty.kind:
        if ty.kind == 'obj':
            return V(ty, v.term, v.loc, v.py)
        if ty.kind == 'tuple':
            if len(v.term) != len(ty.args):
                raise Unsupported('tuple arity mismatch')
            return V(ty, tuple(coerce(x, a) for x, a in zip(v.term, ty.args)))
        if ty.kind in ('list', 'dict', 'set') and v.ty.sort() != ty.sort():
            raise Unsupported('container sort mismatch %r -> %r' % (v.ty, ty))
        return V(ty, v.term, v.loc, v.py) if ty.kind in ('list', 'dict', 'set') else v
    if ty.kind == 'real' and v.ty.kind == 'int':
        return V(REAL, z3.ToReal(v.term))
    if ty.kind == 'real' and v.ty.kind == 'bool':
        return V(REAL, z3.If(v.term, z3.RealVal(1), z3.RealVal(0)))
    if ty.kind == 'int' and v.ty.kind == 'bool':
        return V(INT, z3.If(v.term, z3.IntVal(1), z3.IntVal(0)))
    if ty.kind == 'obj':
        if v.ty.kind == 'int':
            return V(ty, smt.box_int(v.term))
        if v.ty.kind == 'real':
            return V(ty, smt.box_real(v.term))
        if v.ty.kind == 'bool':
            return V(ty, smt.box_bool(v.term))
        if v.ty.kind == 'py':
            d = v.py
            if isinstance(d, tuple) and d[0] == 'cls':
                return V(ty, smt.classobj(d[1])) if d[1] in smt.CLASSES else V(ty, z3.Const('class:' + d[1], Ref))
            if isinstance(d, tuple) and d[0] in ('lambda', 'closure', 'fn', 'method'):
                return V(ty, z3.Const(fresh_name('callable'), Ref), py=d)
        if ty.cls == 'any' and v.ty.kind in ('list', 'dict', 'set', 'tuple'):
            return V(ty, z3.Const(fresh_name('opaque_' + v.ty.kind), Ref))   # lossy: the callee treats it as opaque
        if v.ty.kind == 'py':
            return V(ty, z3.Const(fresh_name('opaque_py'), Ref), py=v.py)
        raise Unsupported('cannot box %r into %r' % (v, ty))
    if v.ty.kind == 'obj':
        if ty.kind == 'int':
            return V(INT, smt.unbox_int(v.term))
        if ty.kind == 'real':
            if v.ty.cls == 'optint':
                return V(REAL, z3.ToReal(smt.unbox_int(v.term)))
            return V(REAL, z3.If(Ref.is_bint(v.term), z3.ToReal(smt.unbox_int(v.term)), smt.unbox_real(v.term)))
        if ty.kind == 'bool':
            return V(BOOL, smt.unbox_bool(v.term))
    raise Unsupported('cannot coerce %r to %r' % (v, ty))
