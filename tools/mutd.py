"""dev: mutation on a copy of PYVC_REPO source (default /var/tmp/repo-head), run tools/tv.py of VERIF_HOME on it"""
import os, shutil, subprocess, sys, tempfile
rel, old, new, *keys = sys.argv[1:]
src = os.environ.get('MUT_SRC', '/var/tmp/repo-head')
home = os.environ.get('VERIF_HOME', '/verif')
d = tempfile.mkdtemp(prefix='bubus-mut-', dir='/var/tmp')
try:
    shutil.copytree(os.path.join(src, 'bubus'), os.path.join(d, 'bubus'))
    p = os.path.join(d, rel)
    s = open(p).read()
    assert s.count(old) >= 1, 'pattern not found'
    open(p, 'w').write(s.replace(old, new, 1))
    env = dict(os.environ, PYVC_REPO=d)
    r = subprocess.run([sys.executable, os.path.join(home, 'tools/tv.py')] + keys, env=env, capture_output=True, text=True)
    print('\n'.join([l for l in r.stdout.splitlines() if ' max ' not in l][:14])); print(r.stderr[-800:])
finally:
    shutil.rmtree(d)
