import sys, time
import os; sys.path.insert(0, os.environ.get('VERIF_HOME', '/verif'))
import z3
from pyvc import smt, verify
import contracts
spec = contracts.build()
keys = [a for a in sys.argv[1:] if not a.startswith('-')] or list(spec.functions)
ax = smt.class_axioms()
for k in keys:
    r = verify.verify_function(spec, k, ax)
    print('==', k, 'paths', r.paths, 'completed', r.completed, 'obls', len(r.obligations), 'refused', r.refused, 'time %.2f' % r.time, r.exits)
    if r.refused: continue
    axioms = ax + smt.literal_axioms()
    obls = r.obligations + r.canaries
    smt.discharge(obls, axioms, 10000)
    for o in obls:
        flag = '' if (o.verdict == 'unsat') != ('canary' in o.tags) else '   <<<<<<'
        print('  %-8s %5.2fs %s L%s%s' % (o.verdict, o.time, o.name, o.meta.get('line'), flag))
        if flag and o.model and '-v' in sys.argv: print(o.model[:1500]); print(o.meta.get('trace'))
