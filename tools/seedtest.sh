#!/bin/sh
# usage: tools/seedtest.sh <seed-dir-name> <property>...   apply seeded/<name>/patch.diff to /repo, run the checks, undo
cd /verif || exit 3
name="$1"; shift
git -C /repo diff --quiet || { echo "/repo not clean"; exit 3; }
git -C /repo apply "/verif/seeded/$name/patch.diff" || { echo "patch does not apply"; exit 3; }
for p in "$@"; do
  echo "=== $name vs $p"
  timeout 1500 .venv312/bin/python check.py "$p" 2>&1 | grep -v "^KNOWN" | tail -6
  echo "exit=$?"
done
git -C /repo checkout -- .
