"""Dev tool: run function contracts against a scratch copy of /repo with one textual edit applied.
usage: mut.py <relfile> <old> <new> <key>...   (scratch under /var/tmp, removed afterwards)"""
import os, shutil, subprocess, sys, tempfile
rel, old, new, *keys = sys.argv[1:]
d = tempfile.mkdtemp(prefix='bubus-mut-', dir='/var/tmp')
try:
    shutil.copytree('/repo/bubus', os.path.join(d, 'bubus'))
    p = os.path.join(d, rel)
    s = open(p).read()
    assert s.count(old) >= 1, 'pattern not found'
    open(p, 'w').write(s.replace(old, new, 1))
    env = dict(os.environ, PYVC_REPO=d)
    r = subprocess.run([sys.executable, '/verif/tools/try2.py'] + keys, env=env, capture_output=True, text=True)
    lines = [l for l in r.stdout.splitlines() if 'canar' not in l]
    print('\n'.join(lines[:25])); print(r.stderr[-2000:])
finally:
    shutil.rmtree(d)
