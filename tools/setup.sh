#!/bin/sh
# Build the overlay interpreter /verif/.venv312 offline (python 3.12 of /venv + z3-solver + cvc5 + jsonschema).
set -e
HERE="$(cd "$(dirname "$0")/.." && pwd)"
V="$HERE/.venv312"
if [ -x "$V/bin/python" ] && "$V/bin/python" -c "import z3, cvc5, pydantic, bubus" >/dev/null 2>&1; then
  exit 0
fi
rm -rf "$V"
/venv/bin/python -m venv "$V"
PIP_NO_INDEX=1 "$V/bin/python" -m pip install -q --no-index --find-links /opt/veriftools/wheels z3-solver cvc5 jsonschema >/dev/null
SP="$("$V/bin/python" -c 'import sysconfig; print(sysconfig.get_paths()["purelib"])')"
echo "import site; site.addsitedir('/venv/lib/python3.12/site-packages')" > "$SP/zz_repo_venv.pth"
"$V/bin/python" -c "import z3, cvc5, pydantic, bubus; print('overlay ok', z3.get_version_string())"
