import sys
import os; sys.path.insert(0, os.environ.get('VERIF_HOME', '/verif'))
import z3
from pyvc import smt, verify
import contracts
spec = contracts.build()
key, pat = sys.argv[1], sys.argv[2]
ax = smt.class_axioms()
r = verify.verify_function(spec, key, ax)
z3.set_option(max_depth=100, max_lines=400, max_width=160)
for o in r.obligations:
    if pat in o.name and (len(sys.argv) < 4 or str(o.meta.get('line')) == sys.argv[3]):
        for i, p in enumerate(o.pc):
            print('--- pc%d' % i); print(p)
        print('=== GOAL'); print(o.goal)
        break
