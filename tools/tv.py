import sys, time, collections, os
sys.path.insert(0, os.environ.get('VERIF_HOME', '/verif'))
from pyvc import smt, verify
import contracts
from contracts import views_c
spec = contracts.build()
views_c.install(spec)
ax = smt.class_axioms()
key = sys.argv[1] if len(sys.argv) > 1 else 'BaseEvent.event_results_filtered'
procs = int(os.environ.get('TV_PROCS', '4'))
r = verify.verify_function_parallel(spec, key, ax, int(os.environ.get("TV_TMO", "15000")), procs=procs)
print('==', key, 'paths', r.paths, 'completed', r.completed, 'obls', len(r.obligations), 'refused', r.refused, 'time %.1f' % r.time, r.exits)
c = collections.Counter((o.verdict, o.name) for o in r.obligations if o.verdict != 'unsat')
for (v, n), cnt in c.most_common(40): print('  %4d %-8s %s' % (cnt, v, n))
tm = collections.defaultdict(float)
for o in r.obligations: tm[o.name] = max(tm[o.name], o.time)
for n, t in sorted(tm.items(), key=lambda x: -x[1])[:10]: print('   max %.1fs %s' % (t, n))
if '-v' in sys.argv:
    seen=set()
    for o in r.obligations:
        if o.verdict != 'unsat' and o.name not in seen:
            seen.add(o.name); print('---', o.name, o.verdict, o.meta.get('line') if hasattr(o,'meta') else ''); print((o.model or '')[:1200]); print(o.trace)
print('  canaries:', collections.Counter(o.verdict for o in r.canaries), [o.trace[-2:] for o in r.canaries if o.verdict == 'unsat'][:3])
