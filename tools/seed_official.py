"""Run my checks against every seeded change applied to /repo itself (git apply ... git checkout -- .), record the outcome in meta.json."""
import json, os, subprocess, sys, glob
RELATED = {'C08': ['C08', 'C10'], 'C15': ['C15', 'C14'], 'C02': ['C02', 'C06'], 'C06': ['C06', 'C11'], 'C11': ['C11', 'C06']}
seeds = sorted(glob.glob('/verif/seeded/*-*')) if len(sys.argv) < 2 else ['/verif/seeded/' + a for a in sys.argv[1:]]
assert subprocess.run(['git', '-C', '/repo', 'diff', '--quiet']).returncode == 0, '/repo not clean'
for sd in seeds:
    name = os.path.basename(sd)
    pid = name.split('-')[0]
    out = {'repo_head': subprocess.run(['git', '-C', '/repo', 'rev-parse', '--short', 'HEAD'], capture_output=True, text=True).stdout.strip(), 'runs': []}
    ap = subprocess.run(['git', '-C', '/repo', 'apply', os.path.join(sd, 'patch.diff')], capture_output=True, text=True)
    if ap.returncode != 0:
        out['error'] = 'patch does not apply: ' + ap.stderr[-200:]
    else:
        try:
            for p in RELATED.get(pid, [pid]):
                r = subprocess.run(['sh', '/verif/tools/run.sh', p, 'quick'], capture_output=True, text=True, timeout=2400)
                vio = [l for l in r.stdout.splitlines() if l.startswith('VIOLATION')]
                und = [l for l in r.stdout.splitlines() if l.startswith('UNDECIDED')]
                out['runs'].append({'check': p, 'cmd': 'git -C /repo apply patch.diff; sh tools/run.sh %s quick; git -C /repo checkout -- .' % p, 'exit': r.returncode,
                                    'violation_lines': vio[:6], 'undecided': und[:3]})
        finally:
            subprocess.run(['git', '-C', '/repo', 'checkout', '--', '.'], check=True)
    out['detected'] = any(r['exit'] == 1 and r['violation_lines'] for r in out['runs'])
    mp = os.path.join(sd, 'meta.json')
    meta = json.load(open(mp)) if os.path.exists(mp) else {}
    meta['breaks_property'] = pid
    meta['my_checks_on_it'] = out
    json.dump(meta, open(mp, 'w'), indent=1)
    print(name, 'detected' if out['detected'] else 'MISSED', [(r['check'], r['exit']) for r in out['runs']], flush=True)
assert subprocess.run(['git', '-C', '/repo', 'diff', '--quiet']).returncode == 0
