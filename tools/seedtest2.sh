#!/bin/sh
# usage: tools/seedtest2.sh <seed-dir-name> <property>...   run the checks against a scratch copy of /repo with the seeded patch applied
cd /verif || exit 3
name="$1"; shift
d=$(mktemp -d /var/tmp/bubus-seed-XXXXXX)
cp -r /repo/bubus /repo/tests /repo/pyproject.toml "$d"/ 2>/dev/null
(cd "$d" && git init -q . && git apply "/verif/seeded/$name/patch.diff") || { echo "patch does not apply"; rm -rf "$d"; exit 3; }
for p in "$@"; do
  echo "=== $name vs $p"
  PYVC_REPO="$d" timeout 1800 .venv312/bin/python check.py "$p" 2>&1 | grep -v "^KNOWN" | tail -5
done
rm -rf "$d"
