#!/bin/sh
# usage: tools/run.sh <property> <tier>   (cwd = checkout of /verif)
HERE="$(cd "$(dirname "$0")/.." && pwd)"
cd "$HERE" || exit 3
[ -x .venv312/bin/python ] || sh tools/setup.sh >/dev/null 2>&1 || exit 3
exec .venv312/bin/python check.py "$1" --tier "${2:-quick}"
