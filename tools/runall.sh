#!/bin/sh
# run every claimed check once (quick tier) and print exit codes
cd /verif || exit 3
for p in $(python3 -c "import json; print(' '.join(c['property_id'] for c in json.load(open('MANIFEST.json'))['checks']))"); do
  s=$(date +%s)
  out=$(sh tools/run.sh $p quick 2>&1); rc=$?
  e=$(date +%s)
  echo "$p exit=$rc $((e-s))s $(echo "$out" | grep -c '^KNOWN-FINDING') known; $(echo "$out" | grep -v '^KNOWN' | tail -1)"
  echo "$out" | grep "^VIOLATION\|^UNDECIDED\|^CHECKER" | head -5
done
