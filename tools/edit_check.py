"""Dev tool: run check.py for properties against a scratch copy of /repo with textual edits applied.
usage: edit_check.py <props,comma> <relfile> <old> <new> [<relfile> <old> <new> ...]"""
import os, shutil, subprocess, sys, tempfile
props = sys.argv[1].split(',')
edits = sys.argv[2:]
d = tempfile.mkdtemp(prefix='bubus-edit-', dir='/var/tmp')
try:
    shutil.copytree('/repo/bubus', os.path.join(d, 'bubus'))
    for i in range(0, len(edits), 3):
        rel, old, new = edits[i:i + 3]
        p = os.path.join(d, rel)
        s = open(p).read()
        assert s.count(old) >= 1, 'pattern not found: ' + old[:40]
        open(p, 'w').write(s.replace(old, new, 1))
    r = subprocess.run([sys.executable, '-c', 'import ast,sys; [ast.parse(open(f).read()) for f in sys.argv[1:]]'] + [os.path.join(d, 'bubus', f) for f in ('service.py', 'models.py', 'helpers.py')])
    env = dict(os.environ, PYVC_REPO=d)
    for pid in props:
        r = subprocess.run(['/verif/.venv312/bin/python', '/verif/check.py', pid], env=env, capture_output=True, text=True, timeout=1800)
        lines = [l for l in r.stdout.splitlines() if not l.startswith('KNOWN')]
        print(pid, 'exit', r.returncode, '|', ' / '.join(lines[-3:])[:400])
finally:
    shutil.rmtree(d)
