"""Regenerate MANIFEST.json from contracts/props.py (claimed checks) + not_applicable reasons."""
import json, sys, os
HERE = os.path.dirname(os.path.dirname(os.path.abspath(__file__)))
sys.path.insert(0, HERE)
from contracts import props
ids = [json.loads(l)['id'] for l in open(os.path.join(HERE, 'properties.jsonl'))]
NA = getattr(props, 'NOT_APPLICABLE', {})
OTHER_TEXT = ('deductive verification as for the proof-level checks (every clause generated from the real function ASTs, discharged by z3/cvc5 for all inputs and paths, '
              'function by function, relative to the listed axioms) EXCEPT the clauses of the open known findings of this property (known_findings.json): '
              'those obligations fail - each with a scenario program that reproduces the failure on the real code - and are reported as KNOWN-FINDING; '
              'every other clause is discharged (evidence: obligations vs discharged)')
checks = []
for pid in ids:
    P = props.PROPERTIES.get(pid)
    if not P or P.get('unclaimed'):
        continue
    checks.append({
        'property_id': pid,
        'quick_cmd': '.venv312/bin/python check.py %s --tier quick' % pid if False else 'sh tools/run.sh %s quick' % pid,
        'thorough_cmd': 'sh tools/run.sh %s thorough' % pid,
        'evidence_file': 'evidence/%s.json' % pid,
        'replay_cmd_template': 'cat {path}',
        'engine': 'pyvc',
        'level_claimed': {'category': P.get('level', 'proof'), 'text': P.get('level_text', OTHER_TEXT if P.get('level') == 'other' else 'every contract clause (pre/post-conditions, loop invariants, exceptional post-conditions, frames, implicit exception sources) generated from the real function ASTs is discharged by z3/cvc5 for all inputs and all paths, function by function; relative to the listed axioms'), 'design_ref': 'DESIGN.md section 6 ' + pid},
        'level_note': '; '.join(P.get('trusted_base', []))[:1500],
        'technique': P.get('technique', 'contract-based deductive verification: sidecar contracts on the real functions, VCs generated from the AST by symbolic execution, discharged by z3 (cvc5 on unknown)'),
    })
m = {
    'version': 1,
    'setup_cmd': 'sh tools/setup.sh',
    'hooks': {'guard': 'BUBUS_VERIF', 'enable': 'no hooks in /repo: contracts are sidecar files under /verif/contracts; the real source is re-read from /repo on every run',
              'baseline_off_cmd': 'cd /repo && /venv/bin/python -m pytest -ra -q -p no:cacheprovider --timeout=900 --continue-on-collection-errors',
              'source_commits': [], 'add_only': True},
    'engines': [{'name': 'pyvc', 'path': 'pyvc/', 'serves_properties': [c['property_id'] for c in checks],
                 'kind_free_text': 'own VC generator: ast of the real /repo functions -> path-enumerating symbolic execution against sidecar contracts -> z3 5.1 (cvc5 on unknown)'}],
    'checks': checks,
    'notes': 'see DESIGN.md; known findings in known_findings.json',
    'not_applicable': [{'property_id': pid, 'reason': NA.get(pid, 'not reached yet: contracts for its functions are not written (DESIGN.md section 11 order of work)')}
                       for pid in ids if pid not in [c['property_id'] for c in checks]],
}
json.dump(m, open(os.path.join(HERE, 'MANIFEST.json'), 'w'), indent=1)
print('claimed:', [c['property_id'] for c in checks])
