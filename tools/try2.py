import sys, time, collections
import os; sys.path.insert(0, os.environ.get('VERIF_HOME', '/verif'))
from pyvc import smt, verify
import contracts
spec = contracts.build()
keys = [a for a in sys.argv[1:] if not a.startswith('-')] or list(spec.functions)
ax = smt.class_axioms()
for k in keys:
    r = verify.verify_function_parallel(spec, k, ax, 10000)
    print('==', k, 'paths', r.paths, 'completed', r.completed, 'obls', len(r.obligations), 'refused', r.refused, 'time %.2f' % r.time, r.exits)
    c = collections.Counter((o.verdict, o.name) for o in r.obligations if o.verdict != 'unsat')
    for (v, n), cnt in c.most_common(40):
        print('  %4d %-8s %s' % (cnt, v, n))
    print('  canaries:', collections.Counter(o.verdict for o in r.canaries))
    if '-v' in sys.argv:
        seen = set()
        for o in r.obligations:
            if o.verdict != 'unsat' and o.name not in seen:
                seen.add(o.name); print('---', o.name, o.verdict, 'L%s' % o.line); print((o.model or '')[:1500]); print(o.trace)
    if '-t' in sys.argv:
        tm = collections.defaultdict(float)
        for o in r.obligations:
            tm[o.name] = max(tm[o.name], o.time)
        for n, t in sorted(tm.items(), key=lambda x: -x[1])[:8]:
            print('   max %.1fs %s' % (t, n))
