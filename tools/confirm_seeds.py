"""Confirm every seeded change myself in a scratch worktree: applies, suite passes, demo fails with it and passes without it.
Writes the outcome into seeded/<id>/meta.json under 'confirmed'. Scratch worktrees under /tmp are removed afterwards."""
import json, os, subprocess, sys, glob, shutil
seeds = sorted(glob.glob('/verif/seeded/*-*')) if len(sys.argv) < 2 else ['/verif/seeded/' + a for a in sys.argv[1:]]
for sd in seeds:
    name = os.path.basename(sd)
    wt = '/tmp/confirm-' + name
    subprocess.run(['git', '-C', '/repo', 'worktree', 'remove', '--force', wt], capture_output=True)
    subprocess.run(['git', '-C', '/repo', 'worktree', 'add', '--detach', wt, 'HEAD', '-q'], check=True)
    env = dict(os.environ, PYTHONPATH=wt, BUBUS_LOGGING_LEVEL='CRITICAL')
    out = {'repo_head': subprocess.run(['git', '-C', '/repo', 'rev-parse', '--short', 'HEAD'], capture_output=True, text=True).stdout.strip()}
    try:
        shutil.copy(os.path.join(sd, 'demo.py'), os.path.join(wt, 'demo_seed.py'))
        r0 = subprocess.run(['/venv/bin/python', 'demo_seed.py'], cwd=wt, env=env, capture_output=True, text=True, timeout=120)
        out['demo_exit_without_change'] = r0.returncode
        ap = subprocess.run(['git', '-C', wt, 'apply', os.path.join(sd, 'patch.diff')], capture_output=True, text=True)
        out['patch_applies'] = ap.returncode == 0
        r1 = subprocess.run(['/venv/bin/python', 'demo_seed.py'], cwd=wt, env=env, capture_output=True, text=True, timeout=180)
        out['demo_exit_with_change'] = r1.returncode
        out['demo_tail_with_change'] = (r1.stdout + r1.stderr)[-300:]
        t = subprocess.run(['/venv/bin/python', '-m', 'pytest', '-q', '-p', 'no:cacheprovider', '--timeout=900', '-x'], cwd=wt, env=env, capture_output=True, text=True, timeout=1500)
        out['suite_with_change'] = t.stdout.strip().splitlines()[-1] if t.stdout.strip() else 'no output'
        out['ran'] = ['git worktree add (scratch)', 'demo.py on HEAD', 'git apply patch.diff', 'demo.py with the change', 'pytest -q -p no:cacheprovider --timeout=900 -x with the change']
        out['ok'] = bool(out['patch_applies'] and out['demo_exit_without_change'] == 0 and out['demo_exit_with_change'] != 0 and ' passed' in out['suite_with_change'] and 'failed' not in out['suite_with_change'])
    except Exception as e:
        out['error'] = repr(e)
        out['ok'] = False
    finally:
        subprocess.run(['git', '-C', '/repo', 'worktree', 'remove', '--force', wt], capture_output=True)
    mp = os.path.join(sd, 'meta.json')
    meta = json.load(open(mp)) if os.path.exists(mp) else {}
    meta['confirmed'] = out
    json.dump(meta, open(mp, 'w'), indent=1)
    print(name, out['ok'], out.get('demo_exit_without_change'), out.get('demo_exit_with_change'), out.get('suite_with_change'))
