"""debug aid: why is a path infeasible?  usage: dbg_path.py <fn key> <substring of trace>...   (finds the shortest infeasible prefix of the pc)"""
import sys, traceback
import os; sys.path.insert(0, os.environ.get('VERIF_HOME', '/verif'))
import z3
from pyvc import smt, verify, symexec
import contracts
spec = contracts.build()
key, pats = sys.argv[1], sys.argv[2:]
ax = smt.class_axioms()
where = {}
orig_assume = symexec.ExecBase.assume
def assume(self, f):
    n = len(self.st.pc)
    orig_assume(self, f)
    if len(self.st.pc) > n:
        fr = [x for x in traceback.extract_stack(limit=12)][:-1]
        where[(id(self.st), n)] = ('L%s ' % self.cur_line) + ' < '.join('%s:%d' % (x.name, x.lineno) for x in reversed(fr[-6:]))
symexec.ExecBase.assume = assume
orig_exit = verify.check_exit
def check_exit(ex, C, env0, outcome, result, exc, res):
    tr = ' '.join(ex.st.trace) + ' exit:' + outcome
    if all(p in tr for p in pats):
        pc = list(ex.st.pc)
        axioms = ax + smt.literal_axioms()
        def sat(k):
            s = z3.Solver(); s.set('timeout', 20000)
            for a in axioms: s.add(a)
            for f in pc[:k]: s.add(f)
            return str(s.check())
        print('PATH', tr, 'pc', len(pc), 'full:', sat(len(pc)))
        lo, hi = 0, len(pc)
        if sat(hi) == 'unsat':
            while lo < hi:
                mid = (lo + hi) // 2
                if sat(mid) == 'unsat': hi = mid
                else: lo = mid + 1
            print('shortest infeasible prefix: %d; last fact from %s' % (lo, where.get((id(ex.st), lo - 1))))
            print(str(pc[lo - 1])[:3000])
            s = z3.Solver(); s.set('timeout', 20000)
            for a in axioms: s.add(a)
            for i, f in enumerate(pc[:lo]): s.assert_and_track(f, 'pc%d' % i)
            if str(s.check()) == 'unsat':
                core = sorted(int(str(c)[2:]) for c in s.unsat_core())
                print('core:', core)
                for i in core:
                    print('--- pc%d from %s\n%s' % (i, where.get((id(ex.st), i)), str(pc[i])[:1200]))
    return orig_exit(ex, C, env0, outcome, result, exc, res)
verify.check_exit = check_exit
r = verify.verify_function(spec, key, ax)
print('refused', r.refused, 'paths', r.paths)
