"""debug aid: which quantified assumptions make an obligation slow?  usage: dbg_obl.py <fn key> <obligation substring> [timeout_s]"""
import sys, time
import os; sys.path.insert(0, os.environ.get('VERIF_HOME', '/verif'))
import z3
from pyvc import smt, verify
from pyvc.core import _has_quantifier
import contracts
spec = contracts.build()
key, pat = sys.argv[1], sys.argv[2]
T = int(sys.argv[3]) * 1000 if len(sys.argv) > 3 else 20000
ax = smt.class_axioms()
r = verify.verify_function(spec, key, ax)
print('refused', r.refused)
axioms = ax + smt.literal_axioms()
def check(pc, goal, extra=()):
    s = z3.Solver(); s.set('timeout', T)
    for a in axioms: s.add(a)
    for a in extra: s.add(a)
    for p in pc: s.add(p)
    s.add(z3.Not(goal))
    t = time.time(); v = str(s.check()); return v, time.time() - t
for o in r.obligations:
    if pat not in o.name: continue
    pc = list(o.pc)
    inj = smt._ground_injectivity(pc + [o.goal])
    print('==', o.name, 'L%s' % o.meta.get('line'), 'pc', len(pc), 'quantified', sum(1 for p in pc if _has_quantifier(p)), o.meta.get('trace'))
    print('  full:', check(pc, o.goal, inj))
    qs = [i for i, p in enumerate(pc) if _has_quantifier(p)]
    print('  qf only:', check([p for p in pc if not _has_quantifier(p)], o.goal, inj))
    for i in qs:
        v = check(pc[:i] + pc[i + 1:], o.goal, inj)
        print('  without pc%d: %s %.1fs   %s' % (i, v[0], v[1], str(pc[i])[:150].replace('\n', ' ')))
